"""Scheduler-admission checks on materialised graphs (C09 oracles)."""
from __future__ import annotations

import io
import pickle

import cloudpickle
import dask
from dask.core import istask

from sim import sched as S


def plan_names(expr):
    """Names of every expression of a plan, including members of fused groups."""
    names = set()
    stack = [expr]
    seen = set()
    while stack:
        e = stack.pop()
        if id(e) in seen:
            continue
        seen.add(id(e))
        names.add(e._name)
        for op in e.operands:
            if hasattr(op, "_name") and hasattr(op, "operands"):
                stack.append(op)
            elif isinstance(op, list):
                for x in op:
                    if hasattr(x, "_name") and hasattr(x, "operands"):
                        stack.append(x)
    return names


def check_outputs(lowered, dsk, keys):
    n = lowered.npartitions
    expect = [(lowered._name, i) for i in range(n)]
    flat = S.flatten_keys(keys)
    if flat != expect:
        raise S.GraphDefect("output_keys", "reported %s expected %s" % (flat[:3], expect[:3]))
    for k in expect:
        if k not in dsk:
            raise S.GraphDefect("missing_output", S.keystr(k))


def _same_key(a, b):
    try:
        return a == b
    except Exception:
        return a is b


def _is_fused_task(task):
    return istask(task) and getattr(task[0], "__name__", "") == "_execute_task" and len(task) >= 3 and isinstance(task[1], dict)


def check_fused_subgraphs(dsk, stems):
    """Every fused task carries a closed, acyclic sub-graph that defines its output name."""
    n = 0
    for k in S.sort_keys(dsk):
        t = dsk[k]
        if not _is_fused_task(t):
            continue
        n += 1
        sub, name = t[1], t[2]
        if name not in sub:
            raise S.GraphDefect("fused_output_missing", "%s lacks %r" % (S.keystr(k), name))
        placeholders = {"_%d" % i for i in range(len(t) - 3)}
        # every external input key must be bound to its own positional placeholder, and to nothing else: otherwise two
        # different inputs are the same thing inside the sub-graph (one key, two meanings)
        for i, dep_key in enumerate(t[3:]):
            try:
                bound = sub.get(dep_key)
            except TypeError:
                continue
            ok_names = {"_%d" % j for j, other in enumerate(t[3:]) if _same_key(other, dep_key)}
            if bound not in ok_names:
                raise S.GraphDefect("fused_bad_placeholder", "%s: input #%d %s is bound to %r inside the sub-graph (expected '_%d')" % (
                    S.keystr(k), i, S.keystr(dep_key), bound, i))
        sub_stems = {S.key_stem(x) for x in sub} | set(stems)
        sub_stems.discard(None)
        full = dict(sub)
        for p in placeholders:
            full.setdefault(p, None)
        for sk in S.sort_keys(sub):
            dangling = []
            S.keylike_literals(sub[sk], full, sub_stems, dangling)
            if dangling:
                raise S.GraphDefect("fused_dangling_reference", "%s: %s -> %s" % (S.keystr(k), S.keystr(sk), S.keystr(dangling[0])))
            v = sub[sk]
            if isinstance(v, str) and v[:1] == "_" and v[1:].isdigit() and v not in placeholders:
                raise S.GraphDefect("fused_bad_placeholder", "%s: %s -> %s" % (S.keystr(k), S.keystr(sk), v))
        deps = {x: dask.core.get_dependencies(full, x) for x in full}
        cyc = S.find_cycle(deps)
        if cyc is not None:
            raise S.GraphDefect("fused_cycle", "%s: %s" % (S.keystr(k), S.keystr(cyc[0])))
        # nested fused groups
        check_fused_subgraphs({kk: vv for kk, vv in sub.items() if _is_fused_task(vv)}, stems)
    return n


_UUID_PREFIXES = ("zpartd-", "shuffle-partition-", "barrier-")


def _strip_uuid(t, depth=0):
    """Disk-shuffle helper keys carry a per-materialisation uuid (listed finding F2): two materialisations of the
    same DiskShuffle differ only there, which is not two *different* tasks in the property's sense."""
    if depth > 6:
        return t
    if isinstance(t, str) and t.startswith(_UUID_PREFIXES):
        for p_ in _UUID_PREFIXES:
            if t.startswith(p_):
                return p_ + "*"
    if isinstance(t, tuple):
        return tuple(_strip_uuid(x, depth + 1) for x in t)
    if isinstance(t, list):
        return [_strip_uuid(x, depth + 1) for x in t]
    return t


def _task_token(task):
    from dask.base import tokenize

    task = _strip_uuid(task)

    try:
        return tokenize(task)
    except Exception:
        try:
            return repr(cloudpickle.dumps(task))
        except Exception:
            return repr(task)


def _is_data_literal(t):
    import numpy as np
    import pandas as pd

    return isinstance(t, (pd.DataFrame, pd.Series, pd.Index, np.ndarray)) or (
        not istask(t) and not isinstance(t, (tuple, list, str, dict)) and not callable(t)
    )


def check_ambiguity(lowered):
    """No two expressions contribute different tasks under one key.

    A key that an imported (persisted) graph carries as materialised *data* and
    that another expression of the same plan defines as the *task* computing it
    is returned as a pending equivalence (key, data, task) to be settled by
    executing the task: equal value -> the same task in the property's sense."""
    owner = {}
    collisions = 0
    pending = []
    for e in lowered.walk():
        layer = e._layer()
        for k, t in layer.items():
            if k in owner:
                on, tok, t0 = owner[k]
                if on != e._name:
                    collisions += 1
                    if _task_token(t) != tok:
                        if _is_data_literal(t) != _is_data_literal(t0):
                            data, task = (t, t0) if _is_data_literal(t) else (t0, t)
                            pending.append((k, data, task))
                            continue
                        raise S.GraphDefect("ambiguous_key", "%s defined by %s and %s with different tasks" % (
                            S.keystr(k), on.split("-")[0], e._name.split("-")[0]))
            else:
                owner[k] = (e._name, _task_token(t), t)
    return collisions, pending


def settle_pending(dsk, pending, get):
    """Execute the task spelling of each pending key; its value must equal the data spelling."""
    from sim.fingerprint import obs_equal, observe

    for k, data, task in pending:
        g = dict(dsk)
        g[k] = task
        val = get(g, k)
        # same rows, labels and schema; row order inside a (disk-)shuffled partition may legitimately differ between
        # the run that produced the imported data and this one
        same, _ = obs_equal(observe(data, labels=True, order=False), observe(val, labels=True, order=False))
        if not same:
            raise S.GraphDefect("ambiguous_key", "%s: imported data differs from the value its defining task computes" % S.keystr(k))
    return len(pending)


class _NoPlannerPickler(cloudpickle.Pickler):
    def reducer_override(self, obj):
        from dask_expr._collection import FrameBase
        from dask_expr._core import Expr

        if isinstance(obj, (Expr, FrameBase)):
            raise S.GraphDefect("planner_object_in_graph", type(obj).__name__)
        return super().reducer_override(obj)


def check_serializable(dsk):
    with dask.config.set({"dask-expr-no-serialize": True}):
        buf = io.BytesIO()
        try:
            _NoPlannerPickler(buf, protocol=4).dump(dsk)
        except S.GraphDefect:
            raise
        except RuntimeError as e:
            if "Serializing a" in str(e):
                raise S.GraphDefect("planner_object_in_graph", str(e)[:120])
            raise S.GraphDefect("unpicklable_graph", "%s: %s" % (type(e).__name__, str(e)[:160]))
        except Exception as e:
            raise S.GraphDefect("unpicklable_graph", "%s: %s" % (type(e).__name__, str(e)[:160]))
    return buf.tell()


def full_check(lowered):
    """All static checks on one lowered plan; returns (dsk, keys, stats)."""
    dsk = dict(lowered.__dask_graph__())
    keys = lowered.__dask_keys__()
    names = plan_names(lowered)
    check_outputs(lowered, dsk, keys)
    S.admission(dsk, keys, names)
    nf = check_fused_subgraphs(dsk, names)
    coll, pending = check_ambiguity(lowered)
    nbytes = check_serializable(dsk)
    return dsk, keys, {"fused_tasks": nf, "benign_key_overlaps": coll, "pickled_bytes": nbytes, "tasks": len(dsk),
                       "pending": pending}

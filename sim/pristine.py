"""Evaluations that run in a fresh fork of the pristine template ("the same query alone
in a fresh process") and the collection descriptions they return."""
from __future__ import annotations

import base64
import pickle

import pandas as pd

from sim import ipc
from sim import workload as W
from sim.fingerprint import _canon_scalar, observe
from sim.world import Session, classify, exc_signature, reference_world


def dtype_kind(dtype):
    """int / float / bool / str / dt / td / cat / obj.  pandas 3 reports 'str' where dask 2024.3 converts to
    'string[pyarrow]': the same schema as far as any property here is concerned."""
    if isinstance(dtype, pd.CategoricalDtype):
        return "cat"
    t = pd.api.types
    if t.is_bool_dtype(dtype):
        return "bool"
    if t.is_integer_dtype(dtype):
        return "int"
    if t.is_float_dtype(dtype):
        return "float"
    if t.is_datetime64_any_dtype(dtype):
        return "dt"
    if t.is_timedelta64_dtype(dtype):
        return "td"
    if t.is_string_dtype(dtype) and not t.is_object_dtype(dtype):
        return "str"
    if str(dtype) in ("str", "string"):
        return "str"
    return "obj"


def meta_desc(meta, kinds=False):
    if kinds:
        if isinstance(meta, pd.DataFrame):
            return {"type": "frame", "columns": [repr(c) for c in meta.columns], "dtypes": [dtype_kind(t) for t in meta.dtypes],
                    "index_names": [repr(n) for n in meta.index.names], "index_dtype": dtype_kind(meta.index.dtype)}
        if isinstance(meta, pd.Series):
            return {"type": "series", "name": repr(meta.name), "dtype": dtype_kind(meta.dtype), "index_names": [repr(n) for n in meta.index.names],
                    "index_dtype": dtype_kind(meta.index.dtype)}
        if isinstance(meta, pd.Index):
            return {"type": "index", "names": [repr(n) for n in meta.names], "dtype": dtype_kind(meta.dtype)}
    if isinstance(meta, pd.DataFrame):
        return {"type": "frame", "columns": [repr(c) for c in meta.columns], "dtypes": [str(t) for t in meta.dtypes],
                "index_names": [repr(n) for n in meta.index.names], "index_dtype": str(meta.index.dtype)}
    if isinstance(meta, pd.Series):
        return {"type": "series", "name": repr(meta.name), "dtype": str(meta.dtype), "index_names": [repr(n) for n in meta.index.names],
                "index_dtype": str(meta.index.dtype)}
    if isinstance(meta, pd.Index):
        return {"type": "index", "names": [repr(n) for n in meta.names], "dtype": str(meta.dtype)}
    return {"type": "scalar", "pytype": type(meta).__name__}


def _guard(fn):
    try:
        return fn()
    except Exception as e:
        return {"error": classify(e), "sig": exc_signature(e), "msg": str(e).split("\n")[0][:160]}


def canon_divisions(coll):
    d = coll.divisions
    if d is None:
        return None
    return [_canon_scalar(x) for x in d]


def describe(coll, det=None, ses=None, compute=True, fuse=True, want=("name", "meta", "divisions", "npartitions", "result")):
    det = det or {}
    out = {}
    if "name" in want:
        out["name"] = _guard(lambda: coll._name)
    if "meta" in want:
        out["meta"] = _guard(lambda: meta_desc(coll._meta))
    if "meta_kinds" in want:
        out["meta_kinds"] = _guard(lambda: meta_desc(coll._meta, kinds=True))
    if "divisions" in want:
        out["divisions"] = _guard(lambda: canon_divisions(coll))
    if "npartitions" in want:
        out["npartitions"] = _guard(lambda: coll.npartitions)
    if "optimized_name" in want:
        out["optimized_name"] = _guard(lambda: coll.optimize(fuse=fuse)._name)
    if "len" in want:
        def _len():
            with ses.scheduler(reference_world(), monitor=False, admission_check=False):
                return len(coll)
        out["len"] = _guard(_len)
    if "parts" in want and compute:
        o = ses.compute_parts(coll, reference_world(), fuse=fuse, det=det)
        if o.cls == "ok":
            out["parts"] = o.obs
        else:
            out["parts"] = {"error": o.cls, "sig": exc_signature(o.exc) if o.exc is not None else o.cls, "msg": o.detail[:200]}
    if "result" in want and compute:
        o = ses.compute(coll, reference_world(), fuse=fuse, monitor=False, det=det, admission_check=False)
        if o.cls == "ok":
            out["result"] = o.obs
        else:
            out["result"] = {"error": o.cls, "sig": exc_signature(o.exc) if o.exc is not None else o.cls, "msg": o.detail[:200]}
    return out


STAGES = ("logical", "simplified-logical", "tuned-logical", "physical", "simplified-physical", "fused")
UUID_PREFIXES = ("zpartd-", "shuffle-partition-", "barrier-")


def _norm_key(k):
    """Graph key as text; the three disk-shuffle helper key families carry a per-materialisation
    uuid (known finding KF-C08-disk-uuid, probed separately): they are reduced to their prefix."""
    from sim.sched import key_stem, keystr

    stem = key_stem(k)
    if isinstance(stem, str):
        for p in UUID_PREFIXES:
            if stem.startswith(p):
                return p + "*" + keystr(k[1:] if isinstance(k, tuple) else "")
    return keystr(k)


def transcript(coll, stages=STAGES, graph=True):
    """Names of all nodes (walk order), output keys and sorted graph keys at every optimizer stage."""
    from dask_expr._expr import optimize_until

    out = {}
    for st in stages:
        try:
            e = optimize_until(coll.expr, st)
            rec = {"names": [x._name if isinstance(x._name, str) else repr(x._name) for x in e.walk()]}
            if graph:
                low = e.lower_completely()
                rec["keys"] = [_norm_key(k) for k in low.__dask_keys__()]
                rec["graph"] = sorted(_norm_key(k) for k in low.__dask_graph__())
            out[st] = rec
        except Exception as ex:
            out[st] = {"error": classify(ex), "sig": exc_signature(ex)}
    return out


def diff_transcripts(a, b):
    for st in STAGES:
        if st not in a and st not in b:
            continue
        x, y = a.get(st), b.get(st)
        if x == y:
            continue
        if x is None or y is None:
            return st, "missing"
        if "error" in x or "error" in y:
            return st, "error %s vs %s" % (x.get("sig"), y.get("sig"))
        for f in ("names", "keys", "graph"):
            if x.get(f) != y.get(f):
                xa, ya = x.get(f) or [], y.get(f) or []
                for i, (p, q) in enumerate(zip(xa, ya)):
                    if p != q:
                        return st, "%s[%d]: %s vs %s" % (f, i, p[:90], q[:90])
                return st, "%s length %d vs %d" % (f, len(xa), len(ya))
    return None


def dumps(obj):
    try:
        return base64.b64encode(pickle.dumps(obj, protocol=4)).decode(), "pickle"
    except Exception:
        import cloudpickle

        return base64.b64encode(cloudpickle.dumps(obj)).decode(), "cloudpickle"


def evaluate(req):
    """Runs inside a pristine fork."""
    kind = req["kind"]
    ses = Session(uuid_shim=req.get("uuid_shim", True))
    try:
        if kind == "pickle":
            try:
                obj = pickle.loads(base64.b64decode(req["blob"]))
            except Exception as e:
                return {"load_error": {"error": classify(e), "sig": exc_signature(e), "msg": str(e).split("\n")[0][:200]}}
            return {"desc": describe(obj, req.get("det"), ses, fuse=req.get("fuse", True), want=tuple(req.get("want") or ("name", "meta", "divisions", "npartitions", "result")))}
        if kind == "recipe":
            recipe = req["recipe"]
            try:
                pool = W.build(recipe, use_knobs=req.get("use_knobs", True), only=req.get("targets"))
            except Exception as e:
                return {"build_error": {"error": classify(e), "sig": exc_signature(e), "msg": str(e).split("\n")[0][:200]}}
            out = {}
            det = recipe.get("det", {})
            for t in req.get("targets") or recipe["targets"]:
                coll = pool[t]
                form = req.get("form", "built")
                try:
                    coll = apply_form(coll, form)
                except Exception as e:
                    out[str(t)] = {"form_error": {"error": classify(e), "sig": exc_signature(e)}}
                    continue
                out[str(t)] = describe(coll, det.get(str(t)), ses, fuse=req.get("fuse", True), want=tuple(req.get("want") or ("name", "meta", "divisions", "npartitions", "result")))
            return {"descs": out}
        if kind == "transcript":
            recipe = req["recipe"]
            try:
                pool = W.build(recipe, use_knobs=req.get("use_knobs", True), only=req.get("targets"), order=req.get("order", "forward"))
            except Exception as e:
                return {"build_error": {"error": classify(e), "sig": exc_signature(e), "msg": str(e).split("\n")[0][:200]}}
            out = {}
            for t in req.get("targets") or recipe["targets"]:
                out[str(t)] = transcript(pool[t], stages=tuple(req.get("stages") or STAGES), graph=req.get("graph", True))
            return {"transcripts": out}
        raise ValueError(kind)
    finally:
        ses.close()


def apply_form(coll, form):
    import dask_expr as dx

    if form == "built":
        return coll
    if form == "optimized":
        return coll.optimize()
    if form == "optimized_nofuse":
        return coll.optimize(fuse=False)
    if form == "lowered":
        return dx.new_collection(coll.expr.lower_completely())
    if form == "simplified":
        return coll.simplify()
    raise ValueError(form)


def call_eval(hash_seed, req, timeout=100.0):
    r = dict(req)
    r["cmd"] = "eval"
    return ipc.call(hash_seed, r, timeout=timeout)


def diff_desc(a, b, fields=("name", "meta", "divisions", "npartitions", "result")):
    """First differing field between two descriptions, or None."""
    from sim.fingerprint import obs_equal

    for f in fields:
        if f not in a and f not in b:
            continue
        x, y = a.get(f), b.get(f)
        if f in ("result", "parts") and isinstance(x, dict) and isinstance(y, dict) and "rows" in x and "rows" in y:
            eq, why = obs_equal(x, y)
            if not eq:
                return f, why
            continue
        if x != y:
            return f, "%s vs %s" % (repr(x)[:150], repr(y)[:150])
    return None

"""Request dispatch inside a forked template child."""
from __future__ import annotations

import importlib

PROFILE_IDS = ("C05", "C08", "C09", "C10", "C12", "C15", "C16", "C17", "C18", "C19")
_profiles = {}
for _p in PROFILE_IDS:
    try:
        _profiles[_p] = importlib.import_module("sim.profiles.%s" % _p.lower())
    except ModuleNotFoundError as _e:  # profile not built yet
        if "sim.profiles" not in str(_e):
            raise


def profile(pid):
    return _profiles[pid]


def dispatch(req):
    cmd = req["cmd"]
    if cmd == "ping":
        import sys

        return {"ok": True, "hashseed": sys.flags.hash_randomization, "pid": __import__("os").getpid()}
    if cmd == "session":
        return _session(req)
    if cmd == "exec":
        return profile(req["property"]).execute(req["spec"])
    if cmd == "eval":
        from sim import pristine

        return pristine.evaluate(req)
    raise ValueError("unknown cmd %r" % cmd)


def _session(req):
    """Generate a spec in this (soon dirty) child, execute it in a pristine fork."""
    import os

    from sim import ipc

    import time

    t0 = time.time()
    prof = profile(req["property"])
    spec = prof.generate(req["run_seed"], req.get("tier", "quick"))
    t1 = time.time()
    if spec is None:
        return {"verdict": "skip", "detail": "generator produced nothing", "spec": None}
    spec["hash_seed"] = req["hash_seed"]
    spec["run_seed"] = req["run_seed"]
    try:
        res = ipc.call(
            req["hash_seed"],
            {"cmd": "exec", "property": req["property"], "spec": spec, "stderr_path": req.get("stderr_path")},
            timeout=max(5.0, float(req.get("cap_s", 120)) - 3.0),
        )
    except ipc.PristineError as e:
        # the executing child was lost (CPU budget / wall backstop): the driver classifies from its stack dump
        res = {"verdict": "child_lost", "detail": str(e)}
    res["spec"] = spec
    res["wall_s"] = {"generate": round(t1 - t0, 2), "execute": round(time.time() - t1, 2)}
    return res

"""Pristine template server.

Exec'd by the driver with an explicit PYTHONHASHSEED.  Imports dask_expr (from
VERIF_REPO, default /repo) and the harness, builds nothing, then serves requests
on a Unix socket: every request is handled in a *fresh fork* of this pristine
state (empty Expr._instances, empty LRUs, no parquet caches, GC disabled so the
simulator decides when the cyclic collector runs).
"""
from __future__ import annotations

import faulthandler
import gc
import os
import signal
import socket
import sys
import traceback


def main():
    sockpath = sys.argv[1]
    repo = os.environ.get("VERIF_REPO", "/repo")
    here = os.path.dirname(os.path.dirname(os.path.abspath(__file__)))
    sys.path.insert(0, here)
    sys.path.insert(0, repo)
    os.environ.setdefault("OMP_NUM_THREADS", "1")
    os.environ.setdefault("OPENBLAS_NUM_THREADS", "1")
    os.environ.setdefault("MKL_NUM_THREADS", "1")
    import warnings

    warnings.simplefilter("ignore")
    import cloudpickle  # noqa
    import dask  # noqa
    import dask.dataframe  # noqa
    import fsspec  # noqa
    import numpy  # noqa
    import pandas  # noqa
    import partd  # noqa
    import pyarrow  # noqa
    import pyarrow.dataset  # noqa
    import pyarrow.parquet  # noqa

    import dask_expr  # noqa

    assert os.path.realpath(dask_expr.__file__).startswith(os.path.realpath(repo)), (
        dask_expr.__file__,
        repo,
    )
    import dask_expr._shuffle  # noqa
    import dask_expr.io.parquet  # noqa

    from sim import handlers, ipc  # noqa  (imports every profile)

    gc.collect()
    gc.disable()
    gc.freeze()

    srv = socket.socket(socket.AF_UNIX, socket.SOCK_STREAM)
    if os.path.exists(sockpath):
        os.unlink(sockpath)
    srv.bind(sockpath)
    srv.listen(256)
    srv.settimeout(1.0)
    parent = os.getppid()
    signal.signal(signal.SIGCHLD, signal.SIG_DFL)
    sys.stdout.write("READY %s\n" % sockpath)
    sys.stdout.flush()
    while True:
        # reap
        try:
            while True:
                pid, _ = os.waitpid(-1, os.WNOHANG)
                if pid == 0:
                    break
        except ChildProcessError:
            pass
        if os.getppid() != parent:
            break
        try:
            conn, _ = srv.accept()
        except socket.timeout:
            continue
        except OSError:
            break
        pid = os.fork()
        if pid == 0:
            code = 0
            try:
                srv.close()
                conn.settimeout(None)
                _serve(conn, handlers, ipc)
            except BaseException:
                traceback.print_exc()
                code = 70
            finally:
                try:
                    sys.stdout.flush()
                    sys.stderr.flush()
                except Exception:
                    pass
                os._exit(code)
        conn.close()
    try:
        os.unlink(sockpath)
    except OSError:
        pass


def _serve(conn, handlers, ipc):
    req = ipc.recv_msg(conn)
    if req is None:
        return
    if req.get("cmd") == "shutdown":
        os.kill(os.getppid(), signal.SIGTERM)
        return
    cap = float(req.get("cap_s", 120))
    logpath = req.get("stderr_path")
    if logpath:
        fd = os.open(logpath, os.O_WRONLY | os.O_CREAT | os.O_APPEND, 0o644)
        os.dup2(fd, 2)
        os.close(fd)
    if req.get("own_group"):
        try:
            os.setpgid(0, 0)
        except OSError:
            pass
    # self-destruct slightly before the caller's socket timeout, stack goes to stderr.
    # Two clocks: a CPU-time budget (robust against a loaded machine; this is the one that
    # classifies "no progress") and a generous wall-clock backstop.
    faulthandler.enable()
    faulthandler.dump_traceback_later(max(1.0, cap - 1.0), exit=True)
    cpu_cap = int(req.get("cpu_cap_s", 0) or 0)
    if cpu_cap:
        import resource

        def _xcpu(signum, frame):
            sys.stderr.write("CPU-Timeout (%ds of CPU time)!\n" % cpu_cap)
            faulthandler.dump_traceback(all_threads=False)
            sys.stderr.flush()
            os._exit(98)

        signal.signal(signal.SIGXCPU, _xcpu)
        used = resource.getrusage(resource.RUSAGE_SELF)
        base = int(used.ru_utime + used.ru_stime)
        resource.setrlimit(resource.RLIMIT_CPU, (base + cpu_cap, base + cpu_cap + 10))
    ipc.send_msg(conn, {"pid": os.getpid()})
    try:
        resp = handlers.dispatch(req)
    except BaseException as e:  # harness-level failure
        resp = {
            "verdict": "harness_error",
            "detail": "%s: %s" % (type(e).__name__, e),
            "traceback": traceback.format_exc()[-4000:],
        }
    ipc.send_msg(conn, resp)


if __name__ == "__main__":
    main()

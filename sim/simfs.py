"""SimFS: an in-memory fsspec filesystem (protocol ``simfs``) that the simulator owns.

* simulated file clock: mtime / created stamps come from a tick counter with drawn resolution and optional
  backwards jumps (never real time), so dataset checksums are replayable;
* seeded listing order: ``ls`` / ``find`` return entries in a permuted order per call;
* fault points on the write path: the k-th file opened for writing fails on close with OSError, optionally
  leaving a torn prefix behind; the k-th read fails with OSError.
Used directly by the fsspec parquet reader / writer and wrapped in ``pyarrow.fs.PyFileSystem(FSSpecHandler(fs))``
for the arrow-filesystem reader.
"""
from __future__ import annotations

import errno
import random
from datetime import datetime, timedelta, timezone

from fsspec.implementations.memory import MemoryFile, MemoryFileSystem

EPOCH = datetime(2024, 1, 1, tzinfo=timezone.utc)


class SimClock:
    def __init__(self, resolution=1, skew_at=None, skew_by=0):
        self.tick = 1000
        self.resolution = max(1, resolution)
        self.skew_at = skew_at
        self.skew_by = skew_by
        self.events = 0

    def now(self):
        self.events += 1
        self.tick += 7
        if self.skew_at is not None and self.events == self.skew_at:
            self.tick -= self.skew_by  # clock jumps backwards once
        t = (self.tick // self.resolution) * self.resolution
        return EPOCH + timedelta(seconds=t)


class _SimFile(MemoryFile):
    def __init__(self, fs=None, path=None, data=None):
        super().__init__(fs, path, data)
        now = fs.clock.now() if fs is not None and getattr(fs, "clock", None) else EPOCH
        self.created = now
        self.modified = now
        self._fail = None
        self._writing = False

    def close(self):
        # a writer becomes visible (or fails) when it is closed; readers share the stored object
        if self._writing:
            self._writing = False
            self.commit()

    def __exit__(self, *a):
        self.close()

    def commit(self):
        fs = self.fs
        if self._fail is not None:
            kind = self._fail
            fs.faults_fired.append(kind)
            if kind == "torn":
                data = self.getvalue()
                torn = _SimFile(fs, self.path, data[: max(1, len(data) // 2)])
                torn.modified = fs.clock.now()
                fs.store[self.path] = torn
            raise OSError(errno.ENOSPC, "injected: no space left on device (%s)" % self.path)
        fs.store[self.path] = self
        m = fs.clock.now()
        # never produce an exact (path, size, mtime) collision between two different writes of one path:
        # no metadata checksum could tell them apart (DESIGN §3.3)
        used = type(fs).last_stamp.setdefault(self.path, set())
        size = self.getbuffer().nbytes
        while (size, m) in used:  # any earlier generation of this path, not only the previous one
            fs.clock.tick += fs.clock.resolution
            m = fs.clock.now()
        used.add((size, m))
        self.modified = m


class SimFS(MemoryFileSystem):
    protocol = "simfs"
    cachable = False
    store = {}
    pseudo_dirs = [""]
    clock = SimClock()
    list_rng = random.Random(0)
    permute_listing = True
    fail_write_at = None
    fail_write_kind = "enospc"
    fail_read_at = None
    writes = 0
    reads = 0
    faults_fired = []
    last_stamp = {}

    @classmethod
    def _strip_protocol(cls, path):
        if isinstance(path, list):
            return [cls._strip_protocol(p) for p in path]
        path = str(path)
        for pre in ("simfs://", "simfs:", "memory://"):
            if path.startswith(pre):
                path = path[len(pre):]
                break
        if "::" in path or "://" in path:
            return path.rstrip("/")
        path = path.lstrip("/").rstrip("/")
        return "/" + path if path else ""

    @classmethod
    def reset(cls, seed=0, resolution=1, skew_at=None, skew_by=0, permute=True):
        cls.store = {}
        cls.pseudo_dirs = [""]
        cls.clock = SimClock(resolution, skew_at, skew_by)
        cls.list_rng = random.Random(seed)
        cls.permute_listing = permute
        cls.fail_write_at = None
        cls.fail_read_at = None
        cls.writes = 0
        cls.reads = 0
        cls.faults_fired = []
        cls.last_stamp = {}
        MemoryFileSystem.store = cls.store
        MemoryFileSystem.pseudo_dirs = cls.pseudo_dirs

    def _decorate(self, info):
        # real stores report a modification time; identity of a file = (path, size, mtime)
        if isinstance(info, dict) and info.get("type") == "file":
            f = type(self).store.get(info["name"])
            if f is not None:
                m = f.modified
                info = dict(info, mtime=m.timestamp(), created=f.created.timestamp() if hasattr(f.created, "timestamp") else f.created)
        return info

    def info(self, path, **kwargs):
        return self._decorate(super().info(path, **kwargs))

    def ls(self, path, detail=True, **kwargs):
        out = super().ls(path, detail=detail, **kwargs)
        if detail:
            out = [self._decorate(o) for o in out]
        if type(self).permute_listing and len(out) > 1:
            out = list(out)
            type(self).list_rng.shuffle(out)
        return out

    def find(self, path, maxdepth=None, withdirs=False, detail=False, **kwargs):
        out = super().find(path, maxdepth=maxdepth, withdirs=withdirs, detail=detail, **kwargs)
        if detail:
            items = [(k, self._decorate(v)) for k, v in out.items()]
            if type(self).permute_listing and len(items) > 1:
                type(self).list_rng.shuffle(items)
            return dict(items)
        out = list(out)
        if type(self).permute_listing and len(out) > 1:
            type(self).list_rng.shuffle(out)
        return out

    def _open(self, path, mode="rb", block_size=None, autocommit=True, cache_options=None, **kwargs):
        cls = type(self)
        path = self._strip_protocol(path)
        if mode in ("rb", "r"):
            k = cls.reads
            cls.reads += 1
            if cls.fail_read_at is not None and k == cls.fail_read_at:
                cls.faults_fired.append("read_eio")
                raise OSError(errno.EIO, "injected: input/output error (%s)" % path)
            return super()._open(path, mode, block_size, autocommit, cache_options, **kwargs)
        if mode in ("wb", "xb"):
            if "/" in path.strip("/"):
                parent = self._parent(path)
                if parent and parent not in ("/", "") and not self.exists(parent):
                    self.makedirs(parent, exist_ok=True)
            f = _SimFile(self, path, kwargs.get("data"))
            k = cls.writes
            cls.writes += 1
            if cls.fail_write_at is not None and k == cls.fail_write_at:
                f._fail = cls.fail_write_kind
            f._writing = True
            return f
        return super()._open(path, mode, block_size, autocommit, cache_options, **kwargs)

    def snapshot(self):
        """path -> bytes of every file (for 'left byte-identical' checks)."""
        return {p: f.getvalue() for p, f in sorted(type(self).store.items())}


def register():
    import fsspec

    fsspec.register_implementation("simfs", SimFS, clobber=True)


def arrow_fs():
    import pyarrow.fs as pafs

    return pafs.PyFileSystem(pafs.FSSpecHandler(SimFS()))

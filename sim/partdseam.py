"""Fault points and tuning knobs on the partd store behind the disk shuffle.

Installed by attribute replacement on partd classes (nothing in /repo changes):
  * Buffer.available_memory   -> drawn tiny so that appends really spill to files
  * File.append               -> k-th call raises OSError(ENOSPC), optionally after a torn (partial) write
  * File._get                 -> k-th call raises OSError(EIO)
"""
from __future__ import annotations

import errno

import partd
import partd.buffer
import partd.file


class PartdSeam:
    def __init__(self, buffer_mem=None, fail_append_at=None, torn=False, fail_get_at=None):
        self.buffer_mem = buffer_mem
        self.fail_append_at = fail_append_at
        self.torn = torn
        self.fail_get_at = fail_get_at
        self.appends = 0
        self.gets = 0
        self.fired = []
        self._orig = None

    def install(self):
        seam = self
        orig_append = partd.file.File.append
        orig_get = partd.file.File._get
        orig_binit = partd.buffer.Buffer.__init__
        self._orig = (orig_append, orig_get, orig_binit)

        def append(self_, data, lock=True, fsync=False, **kwargs):
            k = seam.appends
            seam.appends += 1
            if seam.fail_append_at is not None and k == seam.fail_append_at:
                if seam.torn and len(data) > 1:
                    items = sorted(data.items(), key=lambda kv: repr(kv[0]))
                    part = dict(items[: len(items) // 2])
                    orig_append(self_, part, lock=lock, fsync=fsync, **kwargs)
                    seam.fired.append("partd_append_torn")
                else:
                    seam.fired.append("partd_append_enospc")
                raise OSError(errno.ENOSPC, "injected: no space left on device")
            return orig_append(self_, data, lock=lock, fsync=fsync, **kwargs)

        def _get(self_, keys, lock=True, **kwargs):
            k = seam.gets
            seam.gets += 1
            if seam.fail_get_at is not None and k == seam.fail_get_at:
                seam.fired.append("partd_get_eio")
                raise OSError(errno.EIO, "injected: input/output error")
            return orig_get(self_, keys, lock=lock, **kwargs)

        def binit(self_, fast, slow, available_memory=1e9):
            if seam.buffer_mem is not None:
                available_memory = seam.buffer_mem
            return orig_binit(self_, fast, slow, available_memory)

        partd.file.File.append = append
        partd.file.File._get = _get
        partd.buffer.Buffer.__init__ = binit
        return self

    def disarm(self):
        """Keep counting but inject nothing further."""
        self.fail_append_at = None
        self.fail_get_at = None

    def remove(self):
        if self._orig:
            partd.file.File.append, partd.file.File._get, partd.buffer.Buffer.__init__ = self._orig
            self._orig = None

"""Workload model: tables, recipe grammar, builders, generator, library UDFs.

A *recipe* is JSON, self-contained and buildable in any process:
  {"tables": {name: tablespec}, "ops": [op, ...], "targets": [op id, ...]}
Each op adds one pool member (a dask-expr collection).  The generator tracks
per member whether row order / index labels are defined by the program or left
open by dask-expr (determinacy typing) so that observations only compare what
dask-expr promises.
"""
from __future__ import annotations

import functools
import random

import numpy as np
import pandas as pd

# --------------------------------------------------------------------------
# tables

COL_KINDS = ("int_dup", "int_uniq", "float_nan", "float", "bool", "str_none", "str", "cat", "dt", "int_mono")
INDEX_KINDS = ("range", "int_sorted", "int_unsorted", "float_sorted", "str_sorted", "dt_sorted")
_WORDS = ["ab", "cd", "ef", "gh", "ij", "kl", "mn", "op"]


def make_column(kind, n, rs: np.random.Generator):
    if kind == "int_dup":
        return rs.integers(0, max(3, n // 3), size=n)
    if kind == "int_uniq":
        return rs.permutation(n)
    if kind == "int_mono":
        # strictly increasing: any row-wise partitioning of it is presorted with non-overlapping ranges
        return np.sort(rs.permutation(2 * n)[:n])
    if kind == "float":
        return rs.integers(-8, 24, size=n) / 4.0
    if kind == "float_nan":
        v = rs.integers(-8, 24, size=n) / 4.0
        v[rs.random(n) < 0.2] = np.nan
        return v
    if kind == "bool":
        return rs.random(n) < 0.5
    if kind in ("str", "str_none"):
        v = np.array([_WORDS[i] for i in rs.integers(0, 6, size=n)], dtype=object)
        if kind == "str_none":
            v[rs.random(n) < 0.2] = None
        return v
    if kind == "cat":
        return pd.Categorical([_WORDS[i] for i in rs.integers(0, 4, size=n)], categories=_WORDS[:5])
    if kind == "dt":
        return pd.Timestamp("2020-01-01") + pd.to_timedelta(rs.integers(0, 40, size=n), unit="D")
    raise ValueError(kind)


def make_index(kind, n, rs):
    if kind == "range":
        return pd.RangeIndex(n)
    if kind == "int_sorted":
        return pd.Index(np.sort(rs.integers(0, max(4, n // 2), size=n)))
    if kind == "int_unsorted":
        return pd.Index(rs.integers(0, max(4, n // 2), size=n))
    if kind == "float_sorted":
        return pd.Index(np.sort(rs.integers(0, 2 * n, size=n) / 2.0))
    if kind == "str_sorted":
        return pd.Index(sorted("k%03d" % i for i in rs.integers(0, n, size=n)))
    if kind == "dt_sorted":
        return pd.DatetimeIndex(
            np.sort(pd.Timestamp("2021-01-01") + pd.to_timedelta(rs.integers(0, 2 * n, size=n), unit="D"))
        )
    raise ValueError(kind)


@functools.lru_cache(maxsize=64)
def _make_table_cached(key):
    import json

    spec = json.loads(key)
    rs = np.random.default_rng(spec["seed"])
    n = spec["rows"]
    data = {}
    for name, kind in spec["cols"].items():
        data[name] = make_column(kind, n, rs)
    df = pd.DataFrame(data)
    df.index = make_index(spec.get("index", "range"), n, rs)
    if spec.get("index_name"):
        df.index.name = spec["index_name"]
    if spec.get("flip"):
        # sibling variant: exactly one cell differs
        r, c = spec["flip"]
        col = df.columns.get_loc(c)
        v = df.iloc[r % n, col]
        if isinstance(v, (bool, np.bool_)):
            nv = not v
        elif isinstance(v, (int, float, np.integer, np.floating)):
            nv = (0 if v != v else v) + 1
        elif isinstance(v, str):
            nv = v + "x" if df[c].dtype != "category" else v
        else:
            nv = v
        if df[c].dtype != "category":
            df.iloc[r % n, col] = nv
    if spec.get("index_shift"):
        try:
            df.index = df.index + spec["index_shift"]
        except Exception:
            pass
    return df


def make_table(spec) -> pd.DataFrame:
    """Deterministic function of the spec; returns a fresh copy each call."""
    import json

    return _make_table_cached(json.dumps(spec, sort_keys=True)).copy()


# --------------------------------------------------------------------------
# library functions (module level: they pickle by reference)


def src_block(i, spec=None, nblocks=1, columns=None):
    df = make_table(spec)
    n = len(df)
    lo = (n * i) // nblocks
    hi = (n * (i + 1)) // nblocks
    out = df.iloc[lo:hi]
    if columns is not None:
        out = out[columns]
    return out


def src_block_plain(i, spec=None, nblocks=1):
    return src_block(i, spec=spec, nblocks=nblocks)


EPOCH = 0  # external mutable state read by src_block_epoch (a "file that somebody rewrote")


def src_block_epoch(i, spec=None, nblocks=1):
    sp = dict(spec)
    sp["seed"] = spec["seed"] + EPOCH
    return src_block(i, spec=sp, nblocks=nblocks)


def udf_add_const(df, c=1):
    num = df.select_dtypes(include=["number"])
    out = df.copy()
    for col in num.columns:
        if num[col].dtype != bool:
            out[col] = num[col] + c
    return out


def udf_series_double(s):
    return s * 2


def udf_identity(df):
    return df


def udf_demean(g, col=None):
    g = g.copy()
    g["_dm"] = g[col] - g[col].mean()
    return g


def udf_group_range(g, col=None):
    return g[col].max() - g[col].min()


def udf_transform_center(s):
    return s - s.mean()


UDFS = {
    "add_const": udf_add_const,
    "series_double": udf_series_double,
    "identity": udf_identity,
    "demean": udf_demean,
    "group_range": udf_group_range,
    "transform_center": udf_transform_center,
}

# --------------------------------------------------------------------------
# predicate and expression grammars


def build_pred(df, p):
    k = p[0]
    if k == "and":
        return build_pred(df, p[1]) & build_pred(df, p[2])
    if k == "or":
        return build_pred(df, p[1]) | build_pred(df, p[2])
    if k == "not":
        return ~build_pred(df, p[1])
    if k == "notna":
        return df[p[1]].notnull()
    if k == "isna":
        return df[p[1]].isna()
    if k == "isin":
        return df[p[1]].isin(p[2])
    if k == "colcmp":
        return _cmp(p[1], df[p[2]], df[p[3]])
    if k == "redcmp":
        return _cmp(p[1], df[p[2]], getattr(df[p[2]], p[3])())
    if k in ("gt", "ge", "lt", "le", "eq", "ne"):
        return _cmp(k, df[p[1]], _lit(p[2]))
    raise ValueError(p)


def _pred_columns(p):
    k = p[0]
    if k in ("and", "or"):
        return _pred_columns(p[1]) | _pred_columns(p[2])
    if k == "not":
        return _pred_columns(p[1])
    if k == "colcmp":
        return {p[2], p[3]}
    if k == "redcmp":
        return {p[2]}
    return {p[1]}


def _lit(v):
    if isinstance(v, dict) and "ts" in v:
        return pd.Timestamp(v["ts"])
    return v


def _cmp(k, a, b):
    if k == "gt":
        return a > b
    if k == "ge":
        return a >= b
    if k == "lt":
        return a < b
    if k == "le":
        return a <= b
    if k == "eq":
        return a == b
    if k == "ne":
        return a != b
    raise ValueError(k)


def build_expr(df, e):
    k = e[0]
    if k == "col":
        return df[e[1]]
    if k == "lit":
        return e[1]
    if k == "red":
        return getattr(df[e[1]], e[2])()
    a = build_expr(df, e[1])
    b = build_expr(df, e[2]) if len(e) > 2 else None
    if k == "add":
        return a + b
    if k == "sub":
        return a - b
    if k == "mul":
        return a * b
    if k == "neg":
        return -a
    if k == "abs":
        return a.abs()
    raise ValueError(e)


# --------------------------------------------------------------------------
# builder

KNOB_KEYS = (
    "split_every",
    "split_out",
    "shuffle_method",
    "max_branch",
    "broadcast",
    "npartitions_hint",
    "upsample",
    "sort_npartitions",
)


def _kn(op, use_knobs, name, default=None):
    if not use_knobs:
        return default
    return (op.get("knobs") or {}).get(name, default)


def _red_kwargs(op, use_knobs):
    kw = {}
    se = _kn(op, use_knobs, "split_every")
    if se is not None:
        kw["split_every"] = se
    return kw


def build_op(op, pool, tables, use_knobs=True):
    """Build one op against already-built pool members; returns a collection."""
    import dask
    import dask_expr as dx

    o = op["op"]
    if o == "from_pandas":
        pdf = make_table(tables[op["table"]])
        if op.get("series"):
            pdf = pdf[op["series"]]
        kw = {}
        if op.get("chunksize"):
            kw["chunksize"] = op["chunksize"]
        else:
            kw["npartitions"] = op.get("npartitions", 1)
        return dx.from_pandas(pdf, sort=op.get("sort", True), **kw)
    if o == "from_map":
        spec = tables[op["table"]]
        n = op["nblocks"]
        fn = src_block if op.get("projectable", True) else src_block_plain
        return dx.from_map(fn, list(range(n)), spec=spec, nblocks=n)
    if o == "from_map_epoch":
        spec = tables[op["table"]]
        n = op["nblocks"]
        return dx.from_map(src_block_epoch, list(range(n)), spec=spec, nblocks=n)
    if o == "from_delayed":
        spec = tables[op["table"]]
        n = op["nblocks"]
        parts = [dask.delayed(src_block_plain, pure=True)(i, spec=spec, nblocks=n) for i in range(n)]
        meta = make_table(spec).iloc[:0]
        kw = {}
        if op.get("with_meta", True):
            kw["meta"] = meta
        return dx.from_delayed(parts, **kw)
    if o == "from_array":
        pdf = make_table(tables[op["table"]])
        cols = op["columns"]
        arr = pdf[cols].to_numpy(dtype="float64")
        if op.get("contiguous", True):
            # a strided view is tokenized by layout and changes its name when pickled
            # (known finding KF-C16-fromarray-strided, probed separately)
            arr = np.array(arr, order="C", copy=True)
        return dx.from_array(arr, chunksize=op["chunksize"], columns=cols)

    src = op.get("src")
    x = pool[src] if not isinstance(src, list) else None
    if o == "project":
        return x[list(op["columns"])]
    if o == "getcol":
        return x[op["column"]]
    if o == "filter":
        return x[build_pred(x, op["pred"])]
    if o == "assign":
        return x.assign(**{op["name"]: build_expr(x, op["expr"])})
    if o == "rename":
        return x.rename(columns=op["mapping"])
    if o == "rename_series":
        return x.rename(op["name"])
    if o == "astype":
        return x.astype({op["column"]: op["dtype"]})
    if o == "fillna":
        return x.fillna(op["value"])
    if o == "dropna":
        return x.dropna(subset=op.get("subset"))
    if o == "reset_index":
        return x.reset_index(drop=op.get("drop", False))
    if o == "to_frame":
        return x.to_frame()
    if o == "index_of":
        return x.index
    if o == "set_index":
        kw = {}
        if op.get("sorted"):
            kw["sorted"] = True
        sm = _kn(op, use_knobs, "shuffle_method")
        if sm:
            kw["shuffle_method"] = sm
        np_ = _kn(op, use_knobs, "sort_npartitions")
        if np_:
            kw["npartitions"] = np_
        up = _kn(op, use_knobs, "upsample")
        if up:
            kw["upsample"] = up
        if op.get("divisions"):
            kw["divisions"] = op["divisions"]
        mb = _kn(op, use_knobs, "max_branch")
        if mb and sm == "tasks":
            kw["max_branch"] = mb
        return x.set_index(op["column"], drop=op.get("drop", True), **kw)
    if o == "sort_values":
        kw = {}
        sm = _kn(op, use_knobs, "shuffle_method")
        if sm:
            kw["shuffle_method"] = sm
        np_ = _kn(op, use_knobs, "sort_npartitions")
        if np_:
            kw["npartitions"] = np_
        up = _kn(op, use_knobs, "upsample")
        if up:
            kw["upsample"] = up
        return x.sort_values(op["by"], ascending=op.get("ascending", True), **kw)
    if o == "repartition":
        if op.get("partition_size"):
            return x.repartition(partition_size=op["partition_size"])
        if op.get("divisions"):
            return x.repartition(divisions=[_lit(d) for d in op["divisions"]], force=op.get("force", False))
        return x.repartition(npartitions=op["npartitions"])
    if o == "shuffle":
        kw = {}
        sm = _kn(op, use_knobs, "shuffle_method")
        if sm:
            kw["shuffle_method"] = sm
        mb = _kn(op, use_knobs, "max_branch")
        if mb:
            kw["max_branch"] = mb
        if op.get("npartitions"):
            kw["npartitions"] = op["npartitions"]
        if op.get("ignore_index"):
            kw["ignore_index"] = True
        if op.get("on_index"):
            return x.shuffle(on_index=True, **kw)
        return x.shuffle(op["on"], **kw)
    if o == "drop_duplicates":
        kw = {}
        so = _kn(op, use_knobs, "split_out")
        if so is not None:
            kw["split_out"] = so
        se = _kn(op, use_knobs, "split_every")
        if se is not None:
            kw["split_every"] = se
        sm = _kn(op, use_knobs, "shuffle_method")
        if sm:
            kw["shuffle_method"] = sm
        y = x[list(op["subset"])] if op.get("subset") else x
        return y.drop_duplicates(**kw)
    if o == "unique":
        kw = {}
        so = _kn(op, use_knobs, "split_out")
        if so is not None:
            kw["split_out"] = so
        se = _kn(op, use_knobs, "split_every")
        if se is not None:
            kw["split_every"] = se
        return x.unique(**kw)
    if o == "value_counts":
        kw = {}
        so = _kn(op, use_knobs, "split_out")
        if so is not None:
            kw["split_out"] = so
        se = _kn(op, use_knobs, "split_every")
        if se is not None:
            kw["split_every"] = se
        return x.value_counts(**kw)
    if o == "merge":
        left, right = pool[src[0]], pool[src[1]]
        kw = {"how": op.get("how", "inner")}
        if op.get("on"):
            kw["on"] = op["on"]
        if op.get("left_index"):
            kw["left_index"] = True
        if op.get("right_index"):
            kw["right_index"] = True
        if op.get("left_on"):
            kw["left_on"] = op["left_on"]
        if op.get("right_on"):
            kw["right_on"] = op["right_on"]
        b = _kn(op, use_knobs, "broadcast")
        if b is not None:
            kw["broadcast"] = b
        sm = _kn(op, use_knobs, "shuffle_method")
        if sm:
            kw["shuffle_method"] = sm
        np_ = _kn(op, use_knobs, "npartitions_hint")
        if np_:
            kw["npartitions"] = np_
        return left.merge(right, **kw)
    if o == "concat":
        parts = [pool[s] for s in src]
        return dx.concat(parts, axis=op.get("axis", 0), **({"interleave_partitions": True} if op.get("interleave") else {}))
    if o == "binop":
        a, b = pool[src[0]], pool[src[1]]
        return _cmp(op["fn"], a, b) if op["fn"] in ("gt", "lt", "eq", "ne", "ge", "le") else build_expr_binop(op["fn"], a, b)
    if o == "cum":
        return getattr(x, op["fn"])()
    if o == "shift":
        return x.shift(op.get("periods", 1))
    if o == "diff":
        return x.diff(op.get("periods", 1))
    if o == "rolling":
        return getattr(x.rolling(op["window"]), op.get("fn", "sum"))()
    if o == "map_partitions":
        fn = UDFS[op["udf"]]
        kw = dict(op.get("kwargs") or {})
        return x.map_partitions(fn, **kw)
    if o == "series_map":
        k = op["fn"]
        if k == "abs":
            return x.abs()
        if k == "isin":
            return x.isin(op["values"])
        if k == "between":
            return x.between(op["lo"], op["hi"])
        if k == "clip":
            return x.clip(op["lo"], op["hi"])
        if k == "add":
            return x + op["value"]
        if k == "mul":
            return x * op["value"]
        if k == "isna":
            return x.isna()
        if k == "fillna":
            return x.fillna(op["value"])
        raise ValueError(k)
    if o == "head":
        return x.head(op["n"], npartitions=op.get("npartitions", 1), compute=False)
    if o == "tail":
        return x.tail(op["n"], compute=False)
    if o == "partitions":
        return x.partitions[op["index"]]
    if o == "reduce":
        y = x
        if op.get("columns"):
            y = x[list(op["columns"])]
        kw = _red_kwargs(op, use_knobs)
        fn = op["fn"]
        if fn == "nunique":
            so = _kn(op, use_knobs, "split_out")
            return y.nunique(**kw) if so is None else y.nunique(split_out=so, **kw)
        if fn in ("var", "std") and "ddof" in op:
            kw["ddof"] = op["ddof"]
        return getattr(y, fn)(**kw)
    if o == "len":
        return dx.new_collection(dx._reductions.Len(x.expr))
    if o == "groupby_agg":
        kw = {}
        if "sort" in op:
            kw["sort"] = op["sort"]
        if "dropna" in op:
            kw["dropna"] = op["dropna"]
        if op.get("observed") is not None:
            kw["observed"] = op["observed"]
        g = x.groupby(op["by"] if len(op["by"]) > 1 else op["by"][0], **kw)
        akw = {}
        so = _kn(op, use_knobs, "split_out")
        if so is not None:
            akw["split_out"] = so
        se = _kn(op, use_knobs, "split_every")
        if se is not None:
            akw["split_every"] = se
        sm = _kn(op, use_knobs, "shuffle_method")
        if sm:
            akw["shuffle_method"] = sm
        if op.get("agg"):
            return g.agg(op["agg"], **akw)
        sel = g[op["columns"]] if op.get("columns") else g
        fn = op["fn"]
        if fn == "size":
            return sel.size(**akw)
        return getattr(sel, fn)(**akw)
    if o == "groupby_apply":
        g = x.groupby(op["by"][0] if len(op["by"]) == 1 else op["by"])
        fn = UDFS[op["udf"]]
        kw = dict(op.get("kwargs") or {})
        sm = _kn(op, use_knobs, "shuffle_method")
        if sm:
            kw["shuffle_method"] = sm
        return g.apply(fn, **kw)
    if o == "groupby_transform":
        g = x.groupby(op["by"][0])[op["column"]]
        fn = UDFS[op["udf"]]
        kw = {}
        sm = _kn(op, use_knobs, "shuffle_method")
        if sm:
            kw["shuffle_method"] = sm
        return g.transform(fn, **kw)
    if o == "where":
        cond = build_pred(x, op["pred"])
        return x.where(cond, op["other"]) if op.get("mode", "where") == "where" else x.mask(cond, op["other"])
    if o == "loc_slice":
        return x.loc[_lit(op["lo"]):_lit(op["hi"])]
    if o == "nlargest":
        out = getattr(x, op.get("fn", "nlargest"))(op["n"], op["column"])
        return out[op["column"]] if op.get("only_key") else out
    if o == "str_method":
        sacc = x.str
        return getattr(sacc, op["fn"])(*op.get("args", []))
    if o == "dt_attr":
        return getattr(x.dt, op["attr"])
    if o == "melt":
        return x.melt(id_vars=op["id_vars"], value_vars=op["value_vars"])
    if o == "combine_first":
        return pool[src[0]].combine_first(pool[src[1]])
    if o == "round":
        return x.round(op.get("decimals", 0))
    if o == "frame_isin":
        return x.isin(op["values"])
    if o == "describe":
        return x.describe()
    if o == "quantile":
        return x.quantile(op["q"], method="dask")
    if o == "random_split":
        rs = np.random.RandomState(op["rs_seed"]) if op.get("rs_kind", "int") == "RandomState" else op["rs_seed"]
        return x.random_split(op["frac"], random_state=rs, shuffle=op.get("shuffle", False))[op["piece"]]
    if o == "sample":
        rs = np.random.RandomState(op["rs_seed"]) if op.get("rs_kind", "int") == "RandomState" else op["rs_seed"]
        return x.sample(frac=op["frac"], random_state=rs)
    if o == "clear_divisions":
        return x.clear_divisions()
    if o == "preoptimize":
        return x.optimize(fuse=op.get("fuse", True))
    if o == "persist":
        get = PERSIST_GET or dask.get
        return x.persist(scheduler=get, fuse=op.get("fuse", True))
    if o == "delayed_roundtrip":
        parts = x.to_delayed(optimize_graph=op.get("optimize_graph", True))
        kw = {}
        if op.get("with_meta", True):
            kw["meta"] = x._meta
        if op.get("with_divisions", True) and x.known_divisions:
            kw["divisions"] = x.divisions
        if op.get("prefix"):
            kw["prefix"] = op["prefix"]
        return dx.from_delayed(parts, **kw)
    if o == "legacy_roundtrip":
        return dx.from_legacy_dataframe(x.to_legacy_dataframe())
    raise ValueError("unknown op %r" % o)


PERSIST_GET = None  # set by profiles so that persist() runs on the simulated scheduler


def build_expr_binop(fn, a, b):
    if fn == "add":
        return a + b
    if fn == "sub":
        return a - b
    if fn == "mul":
        return a * b
    raise ValueError(fn)


def build(recipe, use_knobs=True, upto=None, override=None, only=None, order="forward"):
    """Build the whole recipe; returns {op id: collection}.

    override: {op id: collection} substitutes a member (C17 cut points).
    only:     iterable of op ids; build only their dependency cone."""
    pool = {}
    tables = recipe["tables"]
    need = None
    if only is not None:
        need = cone(recipe, only)
    ops = list(recipe["ops"])
    if order == "reverse":
        # another valid construction order: always build the highest-numbered op whose sources exist
        todo = {op["id"]: op for op in ops if (need is None or op["id"] in need) and (upto is None or op["id"] <= upto)}
        ops = []
        done = set()
        while todo:
            avail = [i for i, op in todo.items() if all(s in done for s in op_srcs(op))]
            i = max(avail)
            ops.append(todo.pop(i))
            done.add(i)
    for op in ops:
        i = op["id"]
        if upto is not None and i > upto:
            continue
        if need is not None and i not in need:
            continue
        if override and i in override:
            pool[i] = override[i]
            continue
        pool[i] = build_op(op, pool, tables, use_knobs=use_knobs)
    return pool


def op_srcs(op):
    s = op.get("src")
    if s is None:
        return []
    return list(s) if isinstance(s, list) else [s]


def cone(recipe, ids):
    by_id = {op["id"]: op for op in recipe["ops"]}
    need = set()
    stack = list(ids)
    while stack:
        i = stack.pop()
        if i in need:
            continue
        need.add(i)
        stack.extend(op_srcs(by_id[i]))
    return need


def prune(recipe, targets=None):
    """Recipe restricted to the dependency cone of its targets."""
    targets = list(targets if targets is not None else recipe["targets"])
    need = cone(recipe, targets)
    ops = [op for op in recipe["ops"] if op["id"] in need]
    used_tables = {op["table"] for op in ops if "table" in op}
    out = dict(recipe)
    out["ops"] = ops
    out["targets"] = targets
    out["tables"] = {k: v for k, v in recipe["tables"].items() if k in used_tables}
    if "det" in recipe:
        out["det"] = {k: v for k, v in recipe["det"].items() if int(k) in need}
    return out


# --------------------------------------------------------------------------
# generator

FAMILIES = (
    "project",
    "filter",
    "assign",
    "rename",
    "fill",
    "reset_index",
    "set_index",
    "sort_values",
    "repartition",
    "shuffle",
    "dedup",
    "merge",
    "concat",
    "binop",
    "cum",
    "window",
    "map_partitions",
    "series_map",
    "headtail",
    "partitions",
    "reduce",
    "groupby",
    "groupby_udf",
    "value_counts",
    "cut",
    "twin",
    "random",
    "alias",
    "merge_filter",
)

# families that are generated only where the oracle does not compare two compilation routes of one program
# (C05 schedules, C08 names, C09 graphs, C19 plans): they widen the operator coverage without adding the
# C01-C04 defect surface to the differential oracles of C10 / C17
EXTENDED_FAMILIES = ("where", "loc", "nlargest", "accessor", "melt", "combine_first", "frame_misc")


class Member:
    __slots__ = ("id", "kind", "cols", "order", "labels", "nparts", "known", "root", "index_kind", "depth", "overlap")

    def __init__(self, id, kind, cols, order, labels, nparts, known, root, index_kind, depth):
        self.id = id
        self.kind = kind  # frame | series | scalar | index
        self.cols = cols  # {name: dtype kind}  (series: {name: kind})
        self.order = order  # defined | open
        self.labels = labels  # defined | open
        self.nparts = nparts
        self.known = known
        self.root = root  # id of source op (for co-alignment heuristics)
        self.index_kind = index_kind
        self.depth = depth
        self.overlap = False  # downstream of an op that looks into neighbouring partitions (shift/diff/rolling/cum*)

    def det(self):
        return {"order": self.order, "labels": self.labels, "kind": self.kind}


def _dkind(dtype):
    if isinstance(dtype, pd.CategoricalDtype):
        return "cat"
    if pd.api.types.is_bool_dtype(dtype):
        return "bool"
    if pd.api.types.is_integer_dtype(dtype):
        return "int"
    if pd.api.types.is_float_dtype(dtype):
        return "float"
    if pd.api.types.is_datetime64_any_dtype(dtype):
        return "dt"
    if pd.api.types.is_string_dtype(dtype):
        return "str"
    return "obj"


def describe(coll):
    """(kind, cols) of a built collection from its meta."""
    meta = coll._meta
    if isinstance(meta, pd.DataFrame):
        return "frame", {c: _dkind(t) for c, t in zip(meta.columns, meta.dtypes)}
    if isinstance(meta, pd.Series):
        return "series", {meta.name: _dkind(meta.dtype)}
    if isinstance(meta, pd.Index):
        return "index", {meta.name: _dkind(meta.dtype)}
    return "scalar", {}


T0_COLS = ["a", "b", "c", "d", "s", "t"]
T1_COLS = ["a", "b", "g", "h", "u"]


def gen_tables(rng: random.Random, n_tables=None, max_rows=64, idx_kinds=None):
    n_tables = n_tables or rng.choice([1, 2, 2, 3])
    tables = {}
    key_kind = rng.choice(["int_dup", "int_dup", "int_dup", "str", "float", "cat"])
    for t in range(n_tables):
        names = T0_COLS if t != 1 else T1_COLS
        ncols = rng.randint(3, len(names))
        cols = {}
        for j, nm in enumerate(names[:ncols]):
            if nm == "a":
                k = key_kind
                if t == 1 and key_kind == "int_dup" and rng.random() < 0.25:
                    k = "float"  # int keys on one side, float on the other
            elif nm == "b":
                k = rng.choice(["int_dup", "float_nan", "str_none", "int_uniq", "int_mono"])
            else:
                k = rng.choice(COL_KINDS)
            cols[nm] = k
        rows = rng.choice([8, 12, 16, 24, 32, 48, max_rows, max_rows])
        rows = min(rows, max_rows)
        tables["T%d" % t] = {
            "seed": rng.getrandbits(31),
            "rows": rows,
            "cols": cols,
            "index": rng.choice(idx_kinds or ["range", "range", "int_sorted", "int_unsorted", "float_sorted", "str_sorted", "dt_sorted"]),
        }
        if rng.random() < 0.3:
            tables["T%d" % t]["index_name"] = "idx"
    return tables


NUMERIC = ("int", "float")


class Generator:
    """Draws a recipe, validating each op by building it and computing a
    reference observation with ``ref_compute`` (supplied by the profile)."""

    def __init__(self, rng, ref_compute, families=None, knob_space=None, max_ops=8, min_ops=3,
                 max_parts=12, tables=None, max_rows=64, knob_prob=0.5, pool_knobs=False):
        self.rng = rng
        self.ref_compute = ref_compute
        self.families = list(families or FAMILIES)
        self.knob_space = knob_space or {}
        self.max_ops = max_ops
        self.min_ops = min_ops
        self.max_parts = max_parts
        self.tables = tables or gen_tables(rng, max_rows=max_rows)
        self.recipe = {"tables": self.tables, "ops": [], "targets": [], "det": {}}
        self.pool = {}
        self.members = {}
        self.next_id = 0
        self.rejected = 0
        self.reject_reasons = {}
        self.knob_prob = knob_prob
        self.pool_knobs = pool_knobs
        self.allow_partition_size = False
        # keep ops whose reference compute dies with an *internal* error (not an explicit refusal): profiles with
        # static oracles (C09) must still see them - a change that breaks a graph must not vanish as "invalid op"
        self.accept_internal_failures = False
        # sample() keeps read-only ndarray views (per-partition random states) as operands; dask 2024.3 tokenizes
        # ndarrays through their pickle header, which changes when such a view is pickled and reloaded
        # (known finding KF-C16-ndarray-operand-token): profiles comparing names across a pickle switch it off
        self.allow_sample = True
        # persisted partitions are often views (iloc slices); same tokenizer sensitivity once pickled
        self.allow_persist = True
        # groupby: keep null-bearing key columns and dropna=False together more often (C10: the knobs decide which of the
        # chunk / combine / aggregate steps see the null group)
        self.prefer_null_keys = False
        self.source_kinds = ("from_pandas", "from_pandas", "from_pandas", "from_map", "from_delayed", "from_array")
        self.suspects = 0

    # -- helpers -------------------------------------------------------------
    def _knobs(self, names):
        out = {}
        for n in names:
            space = self.knob_space.get(n)
            if space and self.rng.random() < self.knob_prob:
                out[n] = self.rng.choice(space)
        return out

    def _kn(self, op, names):
        op["knob_names"] = list(names)
        op["knobs"] = self._knobs(names)

    def frames(self, pred=None):
        out = [m for m in self.members.values() if m.kind == "frame" and m.cols]
        if pred:
            out = [m for m in out if pred(m)]
        return out

    def series(self, pred=None):
        out = [m for m in self.members.values() if m.kind == "series"]
        if pred:
            out = [m for m in out if pred(m)]
        return out

    def pick(self, ms):
        if not ms:
            return None
        # bias towards recent members so that chains form
        ms = sorted(ms, key=lambda m: m.id)
        w = [1 + 2 * i for i in range(len(ms))]
        return self.rng.choices(ms, weights=w)[0]

    def cols_of(self, m, kinds=None):
        return [c for c, k in m.cols.items() if kinds is None or k in kinds]

    @staticmethod
    def no_suffix_twins(cols):
        """Generator exclusion (known finding KF-C10-suffix-projection, the defect quoted in C04's own
        text): selecting both suffixed copies X_x and X_y out of a merge returns duplicated columns.
        Column lists drawn by the generator therefore never contain both copies."""
        cols = list(cols)
        have = set(cols)
        return [c for c in cols if not (isinstance(c, str) and c.endswith("_y") and c[:-2] + "_x" in have)]

    # -- adding --------------------------------------------------------------
    def try_add(self, op, order, labels, root, index_kind=None):
        op = dict(op)
        op["id"] = self.next_id
        try:
            coll = build_op(op, self.pool, self.tables, use_knobs=self.pool_knobs)
            kind, cols = describe(coll)
            nparts = coll.npartitions
            known = bool(coll.known_divisions) if kind != "scalar" else True
            try:
                self.ref_compute(coll)
            except Exception as e_:
                if not self.accept_internal_failures:
                    raise
                if self.accept_internal_failures != "all" and isinstance(e_, (NotImplementedError, ValueError, TypeError)) and not isinstance(e_, (KeyError, IndexError)):
                    raise
                self.suspects += 1
            if op.get("knobs") and not self.pool_knobs:
                # the knobbed spelling must at least construct
                build_op(op, self.pool, self.tables, use_knobs=True)
        except Exception as e:  # invalid op for this pool: drop it
            self.rejected += 1
            k = type(e).__name__
            self.reject_reasons[k] = self.reject_reasons.get(k, 0) + 1
            return None
        if kind == "frame":
            # generator exclusion (KF-C10-suffix-projection): the right-hand copy X_y of a suffixed pair is never
            # *named* by later ops, so no op ever selects both suffixed copies of one column
            cols = {c: k for c, k in cols.items() if not (isinstance(c, str) and c.endswith("_y") and c[:-2] + "_x" in cols)}
        self.pool[op["id"]] = coll
        srcs = op_srcs(op)
        depth = 1 + max([self.members[s].depth for s in srcs], default=0)
        m = Member(op["id"], kind, cols, order, labels, nparts, known, root, index_kind, depth)
        m.overlap = op["op"] in ("shift", "diff", "rolling", "cum") or any(self.members[s_].overlap for s_ in srcs)
        self.members[op["id"]] = m
        if op.get("knob_names"):
            # partition counts of the inputs: knob vectors are drawn around the selection thresholds they create
            op["src_nparts"] = [self.members[s_].nparts for s_ in srcs]
        self.recipe["ops"].append(op)
        dd = m.det()
        if op["op"] == "sort_values":
            dd["sorted"] = {"by": list(op["by"]), "ascending": op.get("ascending", True)}
        elif op["op"] == "set_index":
            dd["sorted"] = {"by": None, "ascending": True}
        self.recipe["det"][str(op["id"])] = dd
        self.next_id += 1
        return m

    def add_source(self, table=None, kinds=None):
        kinds = kinds or self.source_kinds
        rng = self.rng
        tname = table or rng.choice(sorted(self.tables))
        spec = self.tables[tname]
        kind = rng.choice(kinds)
        n = spec["rows"]
        nparts = rng.choice([1, 2, 3, 4, 5, 7, self.max_parts])
        nparts = max(1, min(nparts, n))
        if kind == "from_pandas":
            op = {"op": "from_pandas", "table": tname}
            if rng.random() < 0.25:
                op["chunksize"] = max(1, n // nparts)
            else:
                op["npartitions"] = nparts
            sorted_idx = spec["index"] != "int_unsorted"
            op["sort"] = True if not sorted_idx else rng.random() < 0.85
            # sort=True on an unsorted index reorders rows: still a defined order
            return self.try_add(op, "defined", "defined", self.next_id, spec["index"])
        if kind == "from_map":
            op = {"op": "from_map", "table": tname, "nblocks": nparts, "projectable": rng.random() < 0.7}
            return self.try_add(op, "defined", "defined", self.next_id, spec["index"])
        if kind == "from_map_epoch":
            op = {"op": "from_map_epoch", "table": tname, "nblocks": nparts}
            return self.try_add(op, "defined", "defined", self.next_id, spec["index"])
        if kind == "from_delayed":
            op = {"op": "from_delayed", "table": tname, "nblocks": nparts, "with_meta": rng.random() < 0.8}
            return self.try_add(op, "defined", "defined", self.next_id, spec["index"])
        if kind == "from_array":
            cols = [c for c, k in spec["cols"].items() if k in ("int_dup", "int_uniq", "float", "float_nan")]
            if not cols:
                return self.add_source(tname, kinds=("from_pandas",))
            op = {"op": "from_array", "table": tname, "columns": cols, "chunksize": max(1, n // nparts)}
            return self.try_add(op, "defined", "defined", self.next_id, "range")

    # -- predicate / expression drawing ---------------------------------------
    def draw_lit(self, kind):
        rng = self.rng
        if kind == "int":
            return rng.randint(0, 8)
        if kind == "float":
            return rng.randint(-4, 16) / 4.0
        if kind in ("str", "cat"):
            return rng.choice(_WORDS[:6])
        if kind == "dt":
            return {"ts": "2020-01-%02d" % rng.randint(1, 28)}
        if kind == "bool":
            return rng.random() < 0.5
        return 1

    def draw_pred(self, m, depth=0):
        rng = self.rng
        cols = m.cols
        if depth < 2 and rng.random() < 0.35:
            k = rng.choice(["and", "or", "not"])
            if k == "not":
                sub = self.draw_pred(m, depth + 1)
                # negated comparisons on string data: pandas 3 'str' (NaN) and dask's converted 'string[pyarrow]' (pd.NA)
                # disagree on null != x, and the optimizer moves filters across the conversion (a C03-type defect,
                # not claimed): negation is only generated over predicates without string / categorical atoms
                if any(cols.get(c_) in ("str", "cat", "obj") for c_ in _pred_columns(sub)):
                    return sub
                return ["not", sub]
            return [k, self.draw_pred(m, depth + 1), self.draw_pred(m, depth + 1)]
        c = rng.choice(sorted(cols))
        kind = cols[c]
        r = rng.random()
        if r < 0.12:
            return [rng.choice(["notna", "isna"]), c]
        if r < 0.24 and kind in ("int", "float", "str"):
            return ["isin", c, sorted({self.draw_lit(kind) for _ in range(3)}, key=repr)]
        if r < 0.32 and kind in NUMERIC:
            others = [x for x in self.cols_of(m, NUMERIC) if x != c]
            if others:
                return ["colcmp", rng.choice(["gt", "le", "eq", "ne"]), c, rng.choice(others)]
        if r < 0.40 and kind in NUMERIC:
            return ["redcmp", rng.choice(["gt", "le"]), c, rng.choice(["mean", "max", "min"])]
        if kind in ("int", "float", "dt"):
            return [rng.choice(["gt", "ge", "lt", "le", "eq", "ne"]), c, self.draw_lit(kind)]
        if kind in ("str", "cat"):
            return ["eq", c, self.draw_lit(kind)]
        if kind == "bool":
            return ["eq", c, self.draw_lit("bool")]
        return ["notna", c]

    def draw_expr(self, m):
        rng = self.rng
        num = self.cols_of(m, NUMERIC)
        if not num:
            return None
        a = ["col", rng.choice(num)]
        r = rng.random()
        if r < 0.3:
            return [rng.choice(["add", "mul", "sub"]), a, ["lit", rng.randint(1, 3)]]
        if r < 0.6:
            return [rng.choice(["add", "sub", "mul"]), a, ["col", rng.choice(num)]]
        if r < 0.8:
            return ["sub", a, ["red", rng.choice(num), rng.choice(["mean", "max", "min", "sum"])]]
        return [rng.choice(["neg", "abs"]), a]

    # -- one step -------------------------------------------------------------
    def step(self):
        rng = self.rng
        fam = rng.choice(self.families)
        fn = getattr(self, "g_" + fam)
        return fn()

    def g_project(self):
        m = self.pick(self.frames(lambda m: len(m.cols) >= 2))
        if not m:
            return None
        cols = sorted(m.cols)
        if self.rng.random() < 0.3:
            c = self.rng.choice(cols)
            return self.try_add({"op": "getcol", "src": m.id, "column": c}, m.order, m.labels, m.root, m.index_kind)
        k = self.rng.randint(1, len(cols))
        sel = self.no_suffix_twins(self.rng.sample(list(m.cols), k))
        return self.try_add({"op": "project", "src": m.id, "columns": sel}, m.order, m.labels, m.root, m.index_kind)

    def g_filter(self):
        m = self.pick(self.frames())
        if not m:
            return None
        return self.try_add({"op": "filter", "src": m.id, "pred": self.draw_pred(m)}, m.order, m.labels, m.root, m.index_kind)

    def g_assign(self):
        m = self.pick(self.frames())
        if not m:
            return None
        e = self.draw_expr(m)
        if e is None:
            return None
        name = self.rng.choice(["z", "y", "a", "b"])
        return self.try_add({"op": "assign", "src": m.id, "name": name, "expr": e}, m.order, m.labels, m.root, m.index_kind)

    def g_rename(self):
        m = self.pick(self.frames())
        if not m:
            return None
        c = self.rng.choice(sorted(m.cols))
        new = self.rng.choice(["r1", "r2", "b", "g"])
        if new in m.cols:
            return None
        return self.try_add({"op": "rename", "src": m.id, "mapping": {c: new}}, m.order, m.labels, m.root, m.index_kind)

    def g_rename_series(self):
        # a pure name change of a series (C05 only: the input series must not be renamed in place)
        m = self.pick(self.series())
        if not m:
            return None
        return self.try_add({"op": "rename_series", "src": m.id, "name": self.rng.choice(["r1", "r2"])}, m.order, m.labels, m.root, m.index_kind)

    def g_fill(self):
        m = self.pick(self.frames())
        if not m:
            return None
        r = self.rng.random()
        if r < 0.4:
            num = self.cols_of(m, NUMERIC)
            if not num:
                return None
            sub = m if len(num) == len(m.cols) else None
            if sub is None:
                return self.try_add({"op": "dropna", "src": m.id, "subset": [self.rng.choice(sorted(m.cols))]}, m.order, m.labels, m.root, m.index_kind)
            return self.try_add({"op": "fillna", "src": m.id, "value": self.rng.randint(0, 3)}, m.order, m.labels, m.root, m.index_kind)
        if r < 0.8:
            sub = self.rng.sample(sorted(m.cols), self.rng.randint(1, min(2, len(m.cols))))
            return self.try_add({"op": "dropna", "src": m.id, "subset": sub}, m.order, m.labels, m.root, m.index_kind)
        ints = self.cols_of(m, ("int",))
        if not ints:
            return None
        return self.try_add({"op": "astype", "src": m.id, "column": self.rng.choice(ints), "dtype": "float64"}, m.order, m.labels, m.root, m.index_kind)

    def g_reset_index(self):
        m = self.pick(self.frames() + self.series())
        if not m:
            return None
        drop = self.rng.random() < 0.4
        if m.labels == "open":
            drop = True  # the old labels are unspecified: never turn them into data
        if m.kind == "series" and drop is False and None in m.cols:
            return None
        # partition-local RangeIndex: labels depend on the layout -> open
        return self.try_add({"op": "reset_index", "src": m.id, "drop": drop}, m.order, "open", self.next_id, "range")

    def _sorts_below(self, mid):
        by_id = {op["id"]: op for op in self.recipe["ops"]}
        return sum(1 for i in cone(self.recipe, [mid]) if by_id[i]["op"] in ("set_index", "sort_values"))

    def g_set_index(self):
        m = self.pick(self.frames(lambda m: len(m.cols) >= 2))
        if not m:
            return None
        if self._sorts_below(m.id) >= 2:
            return None  # towers of nested sorts re-derive their quantiles recursively: cost, not coverage
        cands = self.cols_of(m, ("int", "float", "str", "dt"))
        if not cands:
            return None
        c = self.rng.choice(cands)
        # generator exclusion (known finding KF-C10-null-index-repartition; dask documents nulls in the index as
        # "not entirely supported"): never move a column that contains nulls into the index
        try:
            if bool(self.pool[m.id][c].isna().any().compute()):
                return None
        except Exception:
            return None
        op = {"op": "set_index", "src": m.id, "column": c, "drop": self.rng.random() < 0.8}
        self._kn(op, ["shuffle_method", "sort_npartitions", "upsample", "max_branch"])
        return self.try_add(op, "open", "defined", self.next_id, "set")

    def g_sort_values(self):
        m = self.pick(self.frames())
        if not m:
            return None
        if self._sorts_below(m.id) >= 2:
            return None
        cands = self.cols_of(m, ("int", "float", "str", "dt"))
        if not cands:
            return None
        by = self.rng.sample(cands, self.rng.randint(1, min(2, len(cands))))
        # generator exclusion (known finding KF-C10-sort-null-keys): sort keys never contain nulls
        try:
            if any(bool(self.pool[m.id][c_].isna().any().compute()) for c_ in by):
                return None
        except Exception:
            return None
        op = {"op": "sort_values", "src": m.id, "by": by, "ascending": self.rng.random() < 0.7}
        self._kn(op, ["shuffle_method", "sort_npartitions", "upsample"])
        return self.try_add(op, "open", m.labels, self.next_id, m.index_kind)

    def g_repartition(self):
        m = self.pick(self.frames() + self.series())
        if not m:
            return None
        n = self.rng.choice([1, 2, 3, 5, 8, self.max_parts])
        if self.allow_partition_size and m.kind == "frame" and self.rng.random() < 0.4:
            return self.try_add({"op": "repartition", "src": m.id, "partition_size": self.rng.choice(["200B", "500B", "1kiB", "4kiB"])},
                                m.order, m.labels, m.root, m.index_kind)
        return self.try_add({"op": "repartition", "src": m.id, "npartitions": n}, m.order, m.labels, m.root, m.index_kind)

    def g_shuffle(self):
        m = self.pick(self.frames())
        if not m:
            return None
        cands = self.cols_of(m, ("int", "float", "str", "cat", "dt", "bool"))
        if not cands:
            return None
        on = self.rng.sample(cands, self.rng.randint(1, min(2, len(cands))))
        op = {"op": "shuffle", "src": m.id, "on": on}
        if self.rng.random() < 0.6:
            op["npartitions"] = self.rng.choice([1, 2, 3, 5, 9, self.max_parts])
        labels = m.labels
        if self.rng.random() < 0.2:
            op["ignore_index"] = True
            labels = "open"
        if self.rng.random() < 0.15:
            op.pop("on")
            op["on_index"] = True
        self._kn(op, ["shuffle_method", "max_branch"])
        return self.try_add(op, "open", labels, self.next_id, m.index_kind)

    def g_dedup(self):
        if self.rng.random() < 0.5:
            m = self.pick(self.frames())
            if not m:
                return None
            op = {"op": "drop_duplicates", "src": m.id}
            nonfloat = [c_ for c_ in sorted(m.cols) if m.cols[c_] != "float"]
            if not nonfloat:
                return None
            # always a subset without float columns (computed floats carry reduction-order noise)
            op["subset"] = self.rng.sample(nonfloat, self.rng.randint(1, min(2, len(nonfloat))))
            self._kn(op, ["split_out", "split_every", "shuffle_method"])
            return self.try_add(op, "open", "open", self.next_id, None)
        s = self.pick(self.series(lambda m: list(m.cols.values())[0] != "float"))
        if not s:
            return None
        op = {"op": "unique", "src": s.id}
        self._kn(op, ["split_out", "split_every"])
        return self.try_add(op, "open", "open", self.next_id, None)

    def g_value_counts(self):
        # not on floats: values that are *computed* (means, stds) differ in their last bits between reduction trees,
        # and value_counts / unique turn such noise into different row counts
        s = self.pick(self.series(lambda m: list(m.cols.values())[0] != "float"))
        if not s:
            return None
        op = {"op": "value_counts", "src": s.id}
        self._kn(op, ["split_out", "split_every"])
        return self.try_add(op, "open", "defined", self.next_id, None)

    def g_merge(self):
        fr = self.frames()
        if len(fr) < 1:
            return None
        left = self.pick(fr)
        right = self.pick(fr)
        if right.id == left.id:
            # generator exclusion: merging a collection with *itself* runs into the suffix / column-pruning defects
            # quoted in C01's and C04's own text (df.merge(df2, ...)[both suffixed copies]); those properties are
            # not claimed, so identical operands are not generated (different members of one lineage still are)
            others = [m_ for m_ in fr if m_.id != left.id]
            if not others:
                return None
            right = self.pick(others)
        how = self.rng.choice(["inner", "inner", "left", "right", "outer", "leftsemi"])
        # join keys: no float columns (computed floats carry reduction-order noise, exact equality joins on them are
        # not stable) except the deliberate int-vs-float pairing, and no nulls on either side (null-key matching differs
        # between join algorithms; a C02-type question, not claimed)
        common = [c for c in left.cols if c in right.cols and left.cols[c] in ("int", "float", "str", "cat", "dt")
                  and (right.cols[c] == left.cols[c] or {left.cols[c], right.cols[c]} <= {"int", "float"})
                  and not (left.cols[c] == "float" and right.cols[c] == "float")]
        try:
            common = [c for c in common if not bool(self.pool[left.id][c].isna().any().compute()) and not bool(self.pool[right.id][c].isna().any().compute())]
        except Exception:
            return None
        op = {"op": "merge", "src": [left.id, right.id], "how": how}
        r = self.rng.random()
        labels = "open"
        if r < 0.7 and common:
            op["on"] = self.rng.sample(common, self.rng.randint(1, min(2, len(common))))
        elif (r < 0.85 and left.known and right.known and left.index_kind == right.index_kind and left.index_kind not in (None, "set")
              and left.labels == "defined" and right.labels == "defined"):
            op["left_index"] = True
            op["right_index"] = True
        elif common and right.known and right.labels == "defined":
            op["left_on"] = common[0]
            op["right_index"] = True
            if right.index_kind not in ("int_sorted", "int_unsorted", "range") or left.cols[common[0]] != "int":
                return None
        else:
            return None
        self._kn(op, ["broadcast", "shuffle_method", "npartitions_hint"])
        if how == "leftsemi":
            # known finding KF-C10-leftsemi-bcast-hint (probed under C10): a broadcast leftsemi join with an npartitions
            # hint splits its left side with other hash dtypes than the shuffled right side. The knob is removed
            # after the draw so that the random stream of every other recipe stays as it was.
            op["knob_names"].remove("npartitions_hint")
            op["knobs"].pop("npartitions_hint", None)
        return self.try_add(op, "open", labels, self.next_id, None)

    def _atom(self, c, kind):
        rng = self.rng
        if kind in ("int", "float", "dt"):
            return [rng.choice(["gt", "ge", "lt", "le", "eq"]), c, self.draw_lit(kind)]
        if kind in ("str", "cat"):
            return ["eq", c, self.draw_lit(kind)]
        if kind == "bool":
            return ["eq", c, self.draw_lit("bool")]
        return ["notna", c]

    def g_merge_filter(self):
        """A conjunction / disjunction over columns of *both* inputs directly on top of a join: the filter push-down
        rules for joins (and their mutual undoing) live here."""
        merges = [op for op in self.recipe["ops"] if op["op"] == "merge" and op["id"] in self.members]
        if not merges:
            return self.g_merge()
        op = self.rng.choice(merges)
        m = self.members[op["id"]]
        l, r = (self.members.get(s_) for s_ in op["src"])
        if l is None or r is None:
            return None
        keys = set(op.get("on") or [])
        lcols = [c for c in m.cols if (c in l.cols and c not in r.cols and c not in keys) or (isinstance(c, str) and c.endswith("_x"))]
        rcols = [c for c in m.cols if (c in r.cols and c not in l.cols and c not in keys)]
        if not lcols or not rcols:
            return None
        a = self._atom(*(lambda c: (c, m.cols[c]))(self.rng.choice(lcols)))
        b = self._atom(*(lambda c: (c, m.cols[c]))(self.rng.choice(rcols)))
        first, second = (a, b) if self.rng.random() < 0.5 else (b, a)
        pred = [self.rng.choice(["and", "and", "or"]), first, second]
        if self.rng.random() < 0.3:
            pred = ["and", pred, self._atom(*(lambda c: (c, m.cols[c]))(self.rng.choice(lcols + rcols)))]
        return self.try_add({"op": "filter", "src": m.id, "pred": pred}, m.order, m.labels, m.root, m.index_kind)

    def g_where(self):
        m = self.pick(self.frames(lambda m: all(k in NUMERIC for k in m.cols.values())))
        if not m:
            return None
        op = {"op": "where", "src": m.id, "pred": self.draw_pred(m), "other": self.rng.choice([0, -1, 99]), "mode": self.rng.choice(["where", "mask"])}
        return self.try_add(op, m.order, m.labels, m.root, m.index_kind)

    def g_loc(self):
        ms = [m for m in self.frames() + self.series() if m.known and m.order == "defined" and m.labels == "defined" and m.index_kind in ("range", "int_sorted")]
        m = self.pick(ms)
        if not m:
            return None
        lo = self.rng.randint(0, 10)
        op = {"op": "loc_slice", "src": m.id, "lo": lo, "hi": lo + self.rng.randint(0, 20)}
        return self.try_add(op, m.order, m.labels, self.next_id, m.index_kind)

    def g_nlargest(self):
        m = self.pick(self.frames())
        if not m:
            return None
        cands = self.cols_of(m, ("int",))
        if not cands:
            return None
        c = self.rng.choice(cands)
        op = {"op": "nlargest", "src": m.id, "n": self.rng.choice([1, 2, 3, 5]), "column": c, "fn": self.rng.choice(["nlargest", "nsmallest"]),
              "only_key": True}
        # ties at the cut-off: which of the tied rows survive is open, so the *frame* never becomes a member (it could be
        # drawn as a target or as the input of later ops); only its key column does
        return self.try_add(op, "open", "open", self.next_id, None)

    def g_accessor(self):
        ss = self.series()
        strs = [m for m in ss if list(m.cols.values())[0] == "str"]
        dts = [m for m in ss if list(m.cols.values())[0] == "dt"]
        if strs and (not dts or self.rng.random() < 0.5):
            m = self.pick(strs)
            fn, args = self.rng.choice([("upper", []), ("len", []), ("startswith", ["a"]), ("slice", [0, 1]), ("contains", ["c"])])
            return self.try_add({"op": "str_method", "src": m.id, "fn": fn, "args": args}, m.order, m.labels, m.root, m.index_kind)
        if dts:
            m = self.pick(dts)
            return self.try_add({"op": "dt_attr", "src": m.id, "attr": self.rng.choice(["day", "month", "dayofweek", "year"])}, m.order, m.labels, m.root, m.index_kind)
        m = self.pick(self.frames())
        if not m:
            return None
        cands = self.cols_of(m, ("str", "dt"))
        if not cands:
            return None
        return self.try_add({"op": "getcol", "src": m.id, "column": self.rng.choice(cands)}, m.order, m.labels, m.root, m.index_kind)

    def g_melt(self):
        m = self.pick(self.frames(lambda m: len(self.cols_of(m, NUMERIC)) >= 2))
        if not m:
            return None
        num = self.cols_of(m, NUMERIC)
        idv = [self.rng.choice([c for c in m.cols])]
        vv = [c for c in num if c not in idv][:2]
        if not vv:
            return None
        return self.try_add({"op": "melt", "src": m.id, "id_vars": idv, "value_vars": vv}, "open", "open", self.next_id, None)

    def g_combine_first(self):
        fr = self.frames(lambda m: m.known and m.order == "defined" and m.labels == "defined" and m.index_kind == "range")
        a = self.pick(fr)
        if not a:
            return None
        same = [m for m in fr if list(m.cols) == list(a.cols) and m.id != a.id]
        b = self.pick(same)
        if not b:
            return None
        return self.try_add({"op": "combine_first", "src": [a.id, b.id]}, "defined", "defined", self.next_id, "range")

    def g_frame_misc(self):
        r = self.rng.random()
        if r < 0.3:
            m = self.pick(self.frames(lambda m: all(k in NUMERIC for k in m.cols.values())))
            if not m:
                return None
            return self.try_add({"op": "round", "src": m.id, "decimals": self.rng.choice([0, 1])}, m.order, m.labels, m.root, m.index_kind)
        if r < 0.6:
            m = self.pick(self.frames(lambda m: all(k in NUMERIC for k in m.cols.values())))
            if not m:
                return None
            return self.try_add({"op": "frame_isin", "src": m.id, "values": [0, 1, 2, 2.5]}, m.order, m.labels, m.root, m.index_kind)
        if r < 0.8:
            s_ = self.pick(self.series(lambda m: list(m.cols.values())[0] in NUMERIC))
            if not s_:
                return None
            return self.try_add({"op": "quantile", "src": s_.id, "q": self.rng.choice([0.25, 0.5, 0.9])}, "defined", "defined", self.next_id, None)
        m = self.pick(self.frames(lambda m: all(k in NUMERIC for k in m.cols.values())))
        if not m:
            return None
        return self.try_add({"op": "describe", "src": m.id}, "defined", "defined", self.next_id, None)

    def g_concat(self):
        fr = self.frames()
        if not fr:
            return None
        a = self.pick(fr)
        same = [m for m in fr if list(m.cols) == list(a.cols)]
        b = self.pick(same)
        order = "defined" if a.order == "defined" and b.order == "defined" else "open"
        labels = "defined" if a.labels == "defined" and b.labels == "defined" else "open"
        return self.try_add({"op": "concat", "src": [a.id, b.id], "axis": 0}, order, labels, self.next_id, None)

    def g_binop(self):
        ss = self.series(lambda m: list(m.cols.values())[0] in NUMERIC)
        if len(ss) < 2:
            return None
        a = self.pick(ss)
        same_root = [m for m in ss if m.root == a.root]
        b = self.pick(same_root if same_root and self.rng.random() < 0.7 else ss)
        fn = self.rng.choice(["add", "sub", "mul", "gt", "eq"])
        if a.root != b.root:
            # alignment on index labels; duplicates in the index make the result a cross product -> restrict
            if not (a.known and b.known and a.order == "defined" and b.order == "defined"):
                return None
            if a.index_kind != "range" or b.index_kind != "range":
                return None
        order = "defined" if a.order == "defined" and b.order == "defined" else "open"
        labels = "defined" if a.labels == "defined" and b.labels == "defined" else "open"
        if a.order == "open" or b.order == "open":
            if a.root != b.root:
                return None
        return self.try_add({"op": "binop", "src": [a.id, b.id], "fn": fn}, order, labels, a.root if a.root == b.root else self.next_id, a.index_kind)

    def g_cum(self):
        ms = [m for m in self.frames() + self.series() if m.order == "defined" and all(k in NUMERIC for k in m.cols.values())]
        m = self.pick(ms)
        if not m:
            return None
        return self.try_add({"op": "cum", "src": m.id, "fn": self.rng.choice(["cumsum", "cummax", "cummin"])}, m.order, m.labels, m.root, m.index_kind)

    def g_window(self):
        ms = [m for m in self.frames() + self.series() if m.order == "defined" and all(k in NUMERIC for k in m.cols.values())]
        m = self.pick(ms)
        if not m:
            return None
        r = self.rng.random()
        if r < 0.4:
            op = {"op": "shift", "src": m.id, "periods": self.rng.choice([1, 1, 2, -1])}
        elif r < 0.7:
            op = {"op": "diff", "src": m.id, "periods": self.rng.choice([1, 2])}
        else:
            op = {"op": "rolling", "src": m.id, "window": self.rng.choice([2, 3]), "fn": self.rng.choice(["sum", "max", "mean"])}
        return self.try_add(op, m.order, m.labels, m.root, m.index_kind)

    def g_map_partitions(self):
        m = self.pick(self.frames())
        if not m:
            return None
        return self.try_add({"op": "map_partitions", "src": m.id, "udf": "add_const", "kwargs": {"c": self.rng.randint(1, 3)}}, m.order, m.labels, m.root, m.index_kind)

    def g_series_map(self):
        s = self.pick(self.series(lambda m: list(m.cols.values())[0] in NUMERIC))
        if not s:
            return None
        k = self.rng.choice(["abs", "isin", "between", "clip", "add", "mul", "isna", "fillna"])
        op = {"op": "series_map", "src": s.id, "fn": k}
        if k == "isin":
            op["values"] = [0, 1, 2, 2.5]
        if k in ("between", "clip"):
            op["lo"], op["hi"] = 1, 4
        if k in ("add", "mul", "fillna"):
            op["value"] = self.rng.randint(1, 3)
        return self.try_add(op, s.order, s.labels, s.root, s.index_kind)

    def g_headtail(self):
        ms = [m for m in self.frames() + self.series() if m.order == "defined" and not m.overlap]
        m = self.pick(ms)
        if not m:
            return None
        n = self.rng.choice([1, 2, 3, 5, 9])
        if self.rng.random() < 0.6:
            # head(n, npartitions != 1) is the defect quoted in C11's own text (returns too few rows when leading
            # partitions are short or empty); C11 is not a claimed property, so that region is not generated
            np_ = 1
            return self.try_add({"op": "head", "src": m.id, "n": n, "npartitions": np_}, m.order, m.labels, self.next_id, m.index_kind)
        return self.try_add({"op": "tail", "src": m.id, "n": n}, m.order, m.labels, self.next_id, m.index_kind)

    def g_partitions(self):
        # selecting partitions on top of an op that reads neighbouring partitions is pushed below it and changes
        # the neighbours (a C11-type defect, not claimed): not generated
        ms = [m for m in self.frames() + self.series() if m.order == "defined" and m.nparts >= 2 and not m.overlap]
        m = self.pick(ms)
        if not m:
            return None
        k = self.rng.randint(1, min(3, m.nparts))
        idx = sorted(self.rng.sample(range(m.nparts), k))
        return self.try_add({"op": "partitions", "src": m.id, "index": idx}, m.order, m.labels, self.next_id, m.index_kind)

    def g_reduce(self):
        m = self.pick(self.frames() + self.series())
        if not m:
            return None
        fn = self.rng.choice(["sum", "mean", "count", "min", "max", "var", "std", "nunique"])
        op = {"op": "reduce", "src": m.id, "fn": fn}
        if m.kind == "frame":
            num = self.cols_of(m, NUMERIC)
            if fn == "nunique" or not num:
                return None
            op["columns"] = self.no_suffix_twins(num)
        else:
            kind = list(m.cols.values())[0]
            if fn in ("sum", "mean", "var", "std") and kind not in NUMERIC:
                return None
            if fn in ("min", "max") and kind not in ("int", "float", "dt"):
                return None
        if fn in ("var", "std") and self.rng.random() < 0.5:
            op["ddof"] = self.rng.choice([0, 1, 2])
        self._kn(op, ["split_every"])
        return self.try_add(op, "defined", "defined", self.next_id, None)

    def g_groupby(self):
        m = self.pick(self.frames(lambda m: len(m.cols) >= 2))
        if not m:
            return None
        keys = self.cols_of(m, ("int", "str", "cat", "float", "bool", "dt"))
        if not keys:
            return None
        by = self.rng.sample(keys, 1 if self.rng.random() < 0.7 else min(2, len(keys)))
        keep_nulls = False
        if self.prefer_null_keys and self.rng.random() < 0.5:
            nullable = {c for t in self.recipe["tables"].values() for c, k in t["cols"].items() if k in ("float_nan", "str_none")}
            cands = [c for c in keys if c in nullable]
            if cands:
                by = [self.rng.choice(cands)]
                keep_nulls = True
        vals = self.no_suffix_twins([c for c in self.cols_of(m, NUMERIC) if c not in by])
        op = {"op": "groupby_agg", "src": m.id, "by": by}
        if any(m.cols[c] == "cat" for c in by):
            op["observed"] = self.rng.random() < 0.5
        # no size(): its result name turns NaN over empty partitions / shuffle paths (KF-C10-size-name, probed under C10)
        fns = ["sum", "mean", "count", "min", "max", "var", "std", "nunique"]
        if m.order == "defined":
            fns += ["first", "last"]
        if not vals:
            return None
        elif self.rng.random() < 0.4:
            chosen = self.rng.sample(vals, self.rng.randint(1, min(2, len(vals))))
            op["agg"] = {c: self.rng.choice(["sum", "mean", "count", "min", "max", "var"]) for c in chosen}
        else:
            op["fn"] = self.rng.choice(fns)
            if op["fn"] != "size":
                op["columns"] = self.rng.sample(vals, self.rng.randint(1, min(2, len(vals))))
                if op["fn"] == "nunique":
                    op["columns"] = op["columns"][0]
        if self.rng.random() < 0.2:
            op["sort"] = False
        if self.rng.random() < 0.3 or keep_nulls:
            op["dropna"] = False
        names = ["split_out", "split_every", "shuffle_method"]
        if op.get("fn") == "size" or op.get("observed") is False:
            # known findings KF-C10-size-name / KF-C10-cat-unobserved (probed under C10): no split_out here
            names = ["split_every", "shuffle_method"]
        if op.get("fn") in ("first", "last"):
            # determinacy: through a shuffle-based aggregation the arrival order of the chunks is open, so
            # first/last keep the order-preserving tree reduction
            names = ["split_every"]
        self._kn(op, names)
        if op.get("observed") is False and len(by) > 1 and "split_every" in op["knob_names"]:
            # known finding KF-C10-cat-unobserved-multikey-tree (probed under C10): several keys, one of them categorical,
            # observed=False and a reduction tree of more than two levels return index entries more than once.
            # Removed after the draw (see g_merge).
            op["knob_names"].remove("split_every")
            op["knobs"].pop("split_every", None)
        return self.try_add(op, "open", "defined", self.next_id, None)

    def g_groupby_udf(self):
        m = self.pick(self.frames(lambda m: len(m.cols) >= 2))
        if not m:
            return None
        keys = self.cols_of(m, ("int", "str"))
        vals = self.cols_of(m, NUMERIC)
        if not keys or not vals:
            return None
        by = self.rng.choice(keys)
        vals = [v for v in vals if v != by]
        if not vals:
            return None
        v = self.rng.choice(vals)
        r = self.rng.random()
        if r < 0.4:
            op = {"op": "groupby_transform", "src": m.id, "by": [by], "column": v, "udf": "transform_center"}
            labels = m.labels
        elif r < 0.7:
            op = {"op": "groupby_apply", "src": m.id, "by": [by], "udf": "group_range", "kwargs": {"col": v}}
            labels = "defined"
        else:
            op = {"op": "groupby_apply", "src": m.id, "by": [by], "udf": "demean", "kwargs": {"col": v}}
            labels = m.labels
        self._kn(op, ["shuffle_method"])
        return self.try_add(op, "open", labels, self.next_id, None)

    def g_cut(self):
        m = self.pick(self.frames() + self.series())
        if not m:
            return None
        r = self.rng.random()
        if not self.allow_persist:
            r = 0.45 + r * 0.55
        if r < 0.45:
            op = {"op": "persist", "src": m.id, "fuse": self.rng.random() < 0.7}
        elif r < 0.8:
            op = {"op": "delayed_roundtrip", "src": m.id, "with_meta": self.rng.random() < 0.85,
                  "with_divisions": self.rng.random() < 0.8, "optimize_graph": self.rng.random() < 0.8}
        else:
            op = {"op": "legacy_roundtrip", "src": m.id}
        return self.try_add(op, m.order, m.labels, self.next_id, m.index_kind)

    def g_random(self):
        """Seeded random ops: the result is a function of the seed / RandomState contents, never of task order."""
        m = self.pick([m for m in self.frames() + self.series() if m.order == "defined"])
        if not m:
            return None
        kind = self.rng.choice(["int", "RandomState", "RandomState"])
        if self.rng.random() < 0.6 or not self.allow_sample:
            op = {"op": "random_split", "src": m.id, "frac": self.rng.choice([[0.5, 0.5], [0.3, 0.7], [0.2, 0.3, 0.5]]),
                  "rs_seed": self.rng.randrange(1000), "rs_kind": kind}
            op["piece"] = self.rng.randrange(len(op["frac"]))
        else:
            op = {"op": "sample", "src": m.id, "frac": self.rng.choice([0.3, 0.5, 0.8]), "rs_seed": self.rng.randrange(1000), "rs_kind": kind}
        # the per-partition random states are indexed by position: a partition selection pushed below the random op
        # (head / tail / partitions[...]) changes which rows are drawn (a C11-type defect, not claimed), so the output
        # is typed "order open" and none of those selections is generated on top of it
        return self.try_add(op, "open", m.labels, self.next_id, m.index_kind)

    def g_alias(self):
        """Ops whose task returns its input object unchanged (clear_divisions, identity map_partitions) or that re-enter
        an already optimized (fused) plan: later in-place work on their output would reach the upstream partition."""
        m = self.pick(self.frames())
        if not m:
            return None
        r = self.rng.random()
        if r < 0.25:
            # two already optimized (fused) plans over *different* sources combined by one more blockwise op:
            # nested fused groups with several external inputs
            cands = [x for x in self.frames() if x.known and x.index_kind == "range" and x.order == "defined" and x.labels == "defined"
                     and self.cols_of(x, NUMERIC)]
            pairs = [(a, b) for a in cands for b in cands if a.root != b.root and set(self.cols_of(a, NUMERIC)) & set(self.cols_of(b, NUMERIC))]
            if pairs:
                a, b = self.rng.choice(pairs)
                c = self.rng.choice(sorted(set(self.cols_of(a, NUMERIC)) & set(self.cols_of(b, NUMERIC))))
                outs = []
                for x, (fn, v) in ((a, ("add", 1)), (b, ("mul", 3))):
                    s0 = self.try_add({"op": "getcol", "src": x.id, "column": c}, x.order, x.labels, x.root, x.index_kind)
                    if s0 is None:
                        return None
                    s1 = self.try_add({"op": "series_map", "src": s0.id, "fn": fn, "value": v}, x.order, x.labels, x.root, x.index_kind)
                    if s1 is None:
                        return None
                    s2 = self.try_add({"op": "preoptimize", "src": s1.id, "fuse": True}, x.order, x.labels, self.next_id, x.index_kind)
                    if s2 is None:
                        return None
                    s2.known = True
                    outs.append(s2)
                return self.try_add({"op": "binop", "src": [outs[0].id, outs[1].id], "fn": "sub"}, "defined", "defined", self.next_id, "range")
        if r < 0.35:
            op = {"op": "clear_divisions", "src": m.id}
        elif r < 0.7:
            op = {"op": "map_partitions", "src": m.id, "udf": "identity", "kwargs": {}}
        else:
            op = {"op": "preoptimize", "src": m.id, "fuse": self.rng.random() < 0.8}
        a = self.try_add(op, m.order, m.labels, m.root if op["op"] != "preoptimize" else self.next_id, m.index_kind)
        if a is None or a.kind != "frame":
            return a
        # follow with an assign on the alias and bring the original back into the same graph
        e = self.draw_expr(a)
        if e is None:
            return a
        b = self.try_add({"op": "assign", "src": a.id, "name": "z", "expr": e}, a.order, a.labels, a.root, a.index_kind)
        if b is None:
            return a
        num = [c for c in self.cols_of(m, NUMERIC)]
        if num and "z" in b.cols and m.order == "defined" and self.rng.random() < 0.7:
            c = self.rng.choice(num)
            s1 = self.try_add({"op": "getcol", "src": b.id, "column": "z"}, b.order, b.labels, b.root, b.index_kind)
            s2 = self.try_add({"op": "getcol", "src": m.id, "column": c}, m.order, m.labels, m.root, m.index_kind)
            if s1 is not None and s2 is not None:
                return self.try_add({"op": "binop", "src": [s1.id, s2.id], "fn": "add"}, "defined" if b.order == "defined" else "open",
                                    b.labels, b.root, b.index_kind)
        return b

    _TWIN_PARAMS = {
        "shift": ("periods", [1, 2, 3, -1]),
        "diff": ("periods", [1, 2, 3]),
        "rolling": ("window", [2, 3, 4]),
        "head": ("n", [1, 2, 3, 5]),
        "tail": ("n", [1, 2, 3, 5]),
        "repartition": ("npartitions", [1, 2, 3, 5, 8]),
        "cum": ("fn", ["cumsum", "cummax", "cummin"]),
        "shuffle": ("npartitions", [2, 3, 5, 9]),
        "fillna": ("value", [0, 1, 2, 3]),
    }

    def g_twin(self):
        """Clone an earlier single-source op changing exactly one parameter and
        put original and clone into one graph (binop / concat): key prefixes that
        ignore a distinguishing operand collide there."""
        cands = [op for op in self.recipe["ops"] if op["op"] in self._TWIN_PARAMS or op["op"] in ("series_map", "map_partitions", "sort_values", "set_index",
                                                                                               "groupby_agg", "merge", "drop_duplicates", "value_counts", "reduce")]
        cands = [op for op in cands if op["id"] in self.members]
        if not cands:
            return None
        op = self.rng.choice(cands)
        m = self.members[op["id"]]
        clone = {k: v for k, v in op.items() if k != "id"}
        if op["op"] == "sort_values" and self.rng.random() < 0.6:
            clone["ascending"] = not op.get("ascending", True)
        elif op["op"] in ("sort_values", "set_index", "groupby_agg", "merge", "drop_duplicates", "value_counts", "shuffle") and op.get("knob_names"):
            # same query, one knob different (cache keys must contain every knob the cached value depends on)
            kn = dict(op.get("knobs") or {})
            name = self.rng.choice(op["knob_names"])
            space = [v for v in self.knob_space.get(name, []) if v != kn.get(name)]
            if not space:
                return None
            kn[name] = self.rng.choice(space)
            clone["knobs"] = kn
        elif op["op"] == "reduce" and op.get("fn") in ("var", "std"):
            clone["ddof"] = {0: 1, 1: 0, 2: 1}.get(op.get("ddof", 1), 0)
        elif op["op"] == "repartition" and op.get("partition_size"):
            sizes = [x for x in ["100B", "200B", "300B", "500B", "1kiB"] if x != op["partition_size"]]
            clone["partition_size"] = self.rng.choice(sizes)
        elif op["op"] == "series_map":
            if "value" not in op:
                return None
            clone["value"] = op["value"] + 1
        elif op["op"] == "map_partitions":
            if "c" not in (op.get("kwargs") or {}):
                return None
            clone["kwargs"] = {"c": op["kwargs"]["c"] + 1}
        elif op["op"] in self._TWIN_PARAMS:
            key, space = self._TWIN_PARAMS[op["op"]]
            alt = [v for v in space if v != op.get(key, 1)]
            clone[key] = self.rng.choice(alt)
        else:
            return None
        m2 = self.try_add(clone, m.order, m.labels, m.root if op["op"] not in ("head", "tail", "shuffle") else self.next_id, m.index_kind)
        if m2 is None:
            return None
        numeric = all(k in NUMERIC for k in m.cols.values())
        if m.kind == "series" and m2.kind == "series" and numeric and m.order == "defined" and op["op"] not in ("head", "tail", "repartition", "shuffle"):
            return self.try_add({"op": "binop", "src": [m.id, m2.id], "fn": self.rng.choice(["add", "sub"])}, m.order, m.labels, m.root, m.index_kind)
        if m.kind == "frame" and m2.kind == "frame" and list(m.cols) == list(m2.cols):
            order = "defined" if m.order == "defined" and m2.order == "defined" else "open"
            labels = "defined" if m.labels == "defined" and m2.labels == "defined" else "open"
            return self.try_add({"op": "concat", "src": [m.id, m2.id], "axis": 0}, order, labels, self.next_id, None)
        if m.kind == "series" and m2.kind == "series":
            order = "defined" if m.order == "defined" and m2.order == "defined" else "open"
            labels = "defined" if m.labels == "defined" and m2.labels == "defined" else "open"
            return self.try_add({"op": "concat", "src": [m.id, m2.id], "axis": 0}, order, labels, self.next_id, None)
        return m2

    # -- driver ---------------------------------------------------------------
    def generate(self, n_sources=None, n_targets=None):
        rng = self.rng
        n_sources = n_sources or rng.choice([1, 1, 2])
        tried = 0
        for tname in sorted(self.tables)[:n_sources]:
            while self.add_source(tname) is None and tried < 10:
                tried += 1
        if not self.members:
            return None
        want = rng.randint(self.min_ops, self.max_ops)
        attempts = 0
        while len(self.recipe["ops"]) - n_sources < want and attempts < want * 8:
            attempts += 1
            self.step()
        ids = [m.id for m in self.members.values() if m.depth > 1] or list(self.members)
        # targets: prefer the deepest members
        ids.sort(key=lambda i: (-self.members[i].depth, -i))
        nt = n_targets or rng.choice([1, 1, 2])
        self.recipe["targets"] = sorted(ids[:nt])
        return self.recipe


def knob_space_default():
    return {
        "split_every": [False, 2, 3, 4, 8, 16],
        "split_out": [1, 2, 3, True],
        "shuffle_method": ["tasks", "disk"],
        "max_branch": [2, 3, 4, 8, 32],
        "broadcast": [None, True, False, 0.1, 0.5, 1.0, 2.0],
        "npartitions_hint": [1, 2, 3, 5, 8],
        "upsample": [0.5, 1.0, 2.0],
        "sort_npartitions": [1, 2, 3, 5, 8],
    }

"""C12 — a shuffle is a permutation that co-locates equal keys consistently across frames.

Dedicated sessions: src.shuffle(on=cols|index, npartitions, shuffle_method, max_branch, ignore_index)
with drawn (n_in, n_out, max_branch) around the staging thresholds, optional partitions[P], a twin
frame whose keys are the same values in another numeric dtype, drawn schedules and, for the disk
method, partd write faults (ENOSPC / torn append at the k-th append, EIO on a read) with a tiny
buffer so that appends really reach files.
Oracles: conservation (exactly-once), co-location, twin consistency, subset consistency,
fault => the compute raises and a later fault-free compute is correct.
"""
from __future__ import annotations

import math

import numpy as np
import pandas as pd

from sim import rng as R
from sim import sched as S
from sim import workload as W
from sim.fingerprint import _canon_scalar, obs_equal, observe
from sim.partdseam import PartdSeam
from sim.world import Session, classify, exc_detail, exc_signature, reference_world

PROPERTY = "C12"
SESSIONS = {"quick": 400, "thorough": 900}
BUDGET_S = {"quick": 80, "thorough": 1500}
CAP_S = {"quick": 240, "thorough": 480}
RULE = ("one session = one shuffle configuration (table, key columns/dtypes, n_in, n_out, max_branch, method, ignore_index, "
        "optional output subset, optional twin frame, schedules, optional partd fault); distinct = distinct digest of the whole spec; "
        "non-trivial = the shuffle moved rows between >1 input and >1 output partitions and all invariants were evaluated")
ASSUMPTIONS = [
    "task bodies are atomic",
    "partd faults are injected at File.append/File._get granularity (ENOSPC, torn append, EIO); silent data loss inside the filesystem is out of scope",
]
KEY_KINDS = ("int_dup", "int_dup", "int_dup", "float_nan", "str_none", "cat", "float", "bool", "dt")


def generate(run_seed, tier):
    rw = R.stream(run_seed, "workload")
    rs = R.stream(run_seed, "sched")
    rf = R.stream(run_seed, "faults")
    rows = rw.choice([8, 16, 24, 40, 64, 96])
    k1 = rw.choice(KEY_KINDS)
    cols = {"k": k1, "j": rw.choice(["int_dup", "str_none", "float_nan"]), "rid": "int_uniq", "v": rw.choice(["float", "int_dup", "str"])}
    table = {"seed": rw.getrandbits(31), "rows": rows, "cols": cols,
             "index": rw.choice(["range", "int_sorted", "int_unsorted", "str_sorted", "float_sorted"])}
    max_in = 24 if tier == "thorough" else 16
    n_in = min(rows, rw.choice([1, 2, 3, 4, 5, 7, 8, 9, 12, 16, max_in]))
    method = rw.choice(["tasks", "tasks", "disk"])
    mb = rw.choice([2, 2, 3, 3, 4, 5, 8, 32, None])
    n_out = rw.choice([None, 1, 2, 3, 4, 5, 7, 8, 9, 12, 16, max_in])
    # bias towards the staging thresholds: n_in > max_branch and n_out > max_branch
    if mb and rw.random() < 0.5:
        n_in = min(rows, mb + rw.choice([1, 2, mb, mb * mb - 1, mb * mb + 1]))
        if rw.random() < 0.5:
            n_out = mb + rw.choice([1, 2, mb])
    on_kind = rw.choice(["col", "col", "cols", "index", "index_by_name"])
    if on_kind == "index_by_name" and k1 in ("float_nan", "str_none"):
        on_kind = "col"  # from_pandas refuses / mishandles nulls in the index: not a shuffle matter
    if on_kind == "index_by_name":
        # the key lives in a named index and is referenced by name (on="k"); values = column k's values
        table["key_in_index"] = True
    spec = {
        "property": PROPERTY, "table": table, "n_in": max(1, n_in), "n_out": n_out, "method": method, "max_branch": mb,
        "ignore_index": rw.random() < 0.25 and on_kind not in ("index", "index_by_name"), "on": {"col": ["k"], "cols": ["k", "j"], "index": None, "index_by_name": ["k"]}[on_kind],
        "sort": table["index"] != "int_unsorted" or rw.random() < 0.5,
        "fuse": rw.random() < 0.5,
    }
    if rw.random() < 0.4:
        eff_out = n_out or spec["n_in"]
        k = rw.randint(1, max(1, eff_out - 1))
        spec["subset"] = sorted(rw.sample(range(eff_out), k))
        if eff_out >= 2 and rw.random() < 0.5:
            # a second, different subset of the same shuffle that will share one graph with the first
            k2 = rw.randint(1, max(1, eff_out - 1))
            spec["subset2"] = sorted(rw.sample(range(eff_out), k2))
    if k1 == "int_dup" and on_kind != "index" and rw.random() < 0.6:
        spec["twin_key_in_index"] = rw.random() < 0.3 and on_kind != "cols" and not spec["ignore_index"]
        spec["twin"] = {"method": rw.choice(["tasks", "disk"]), "max_branch": rw.choice([2, 3, 4, 8, 32, None]),
                        "n_in": rw.choice([1, 2, 3, 5, 8]), "dtype": rw.choice(["float64", "int32", "float32"])}
    spec["worlds"] = [S.World.draw(rs).to_json() for _ in range(2 if tier == "quick" else 4)]
    if method == "disk":
        spec["partd"] = {"buffer_mem": rf.choice([None, 0, 64, 1024])}
        if rf.random() < 0.6:
            spec["partd"]["buffer_mem"] = rf.choice([0, 64, 512])
            kind = rf.choice(["append", "append", "torn", "get"])
            spec["partd"]["fault"] = {"kind": kind, "at": rf.randint(0, 12)}
    return spec


def _mk(spec, twin=None, force_out=None):
    import dask_expr as dx

    tspec = dict(spec["table"])
    key_in_index = tspec.pop("key_in_index", False)
    pdf = W.make_table(tspec)
    n_in = spec["n_in"]
    method, mb = spec["method"], spec["max_branch"]
    if twin is not None:
        pdf = pdf.copy()
        pdf["k"] = pdf["k"].astype(twin["dtype"])
        key_in_index = spec.get("twin_key_in_index", False) if not key_in_index else False
        n_in = min(len(pdf), twin["n_in"])
        method, mb = twin["method"], twin["max_branch"]
    if key_in_index:
        pdf = pdf.set_index("k")
    src = dx.from_pandas(pdf, npartitions=n_in, sort=spec.get("sort", True))
    kw = {"shuffle_method": method}
    if mb:
        kw["max_branch"] = mb
    if spec["n_out"]:
        kw["npartitions"] = spec["n_out"]
    elif force_out is not None:
        kw["npartitions"] = force_out
    if spec["ignore_index"]:
        kw["ignore_index"] = True
    if spec["on"] is None:
        sh = src.shuffle(on_index=True, **kw)
    else:
        sh = src.shuffle(spec["on"] if len(spec["on"]) > 1 else spec["on"][0], **kw)
    return pdf, src, sh


def _partitions(ses, coll, world, fuse, monitor=False):
    def thunk(sch):
        opt = coll.optimize(fuse=fuse)
        dsk = dict(opt.__dask_graph__())
        keys = opt.__dask_keys__()
        return sch.get(dsk, keys)

    out = ses.run(thunk, world, monitor=monitor, observe_fn=lambda parts: parts)
    return out, None


def _keys_of(df, on):
    if on is None:
        vals = [(_canon_scalar(v),) for v in df.index.tolist()]
    else:
        cols = [[_canon_scalar(v) for v in (df[c] if c in df.columns else (df.index if df.index.nlevels == 1 else df.index.get_level_values(c))).tolist()] for c in on]
        vals = list(zip(*cols)) if cols else []
    return vals


def _numeric_key(v):
    return v


def _viol(oracle, sig, detail, **kw):
    d = {"verdict": "violation", "oracle": oracle, "signature": sig, "detail": detail}
    d.update(kw)
    return d


def execute(spec):
    ses = Session()
    seam = None
    try:
        pc = spec.get("partd") or {}
        seam = PartdSeam(buffer_mem=pc.get("buffer_mem")).install()
        return _execute(spec, ses, seam)
    finally:
        if seam:
            seam.remove()
        ses.close()


def _execute(spec, ses, seam):
    counters = {"runs": 0, "rows": 0, "keys": 0, "staged": 0, "subset_checks": 0, "twin_checks": 0, "fault_runs": 0,
                "fault_raised": 0, "fault_not_reached": 0}
    faults = {}
    try:
        pdf, src, sh = _mk(spec)
    except Exception as e:
        if classify(e) == "refusal":
            return _done({"verdict": "indeterminate", "detail": exc_detail(e)}, ses, counters, spec, seam, faults)
        return _done(_viol("shuffle_build_failed", exc_signature(e), exc_detail(e)), ses, counters, spec, seam, faults)
    fuse = spec.get("fuse", False)
    ii = spec["ignore_index"]
    on = spec["on"]
    try:
        n_in = src.npartitions
        n_out = sh.npartitions
    except Exception as e:
        return _done({"verdict": "indeterminate", "detail": exc_detail(e)}, ses, counters, spec, seam, faults)
    mb = spec["max_branch"] or 32
    if spec["method"] == "tasks" and n_in > mb and n_out > mb:
        counters["staged"] = 1
    expect_out = spec["n_out"] or n_in
    if n_out != expect_out:
        return _done(_viol("partition_count", "reported", "npartitions reported %d, requested %d" % (n_out, expect_out)), ses, counters, spec, seam, faults)
    in_obs = observe(pdf, labels=not ii, order=False, kinds=False)
    key_part = None
    first_parts = None
    nontrivial = False
    for wi, wj in enumerate(spec["worlds"]):
        world = S.World.from_json(wj)
        out, opt = _partitions(ses, sh, world, fuse, monitor=(wi == 0))
        counters["runs"] += 1
        if out.cls != "ok":
            if out.cls == "refusal" and wi == 0:
                return _done({"verdict": "indeterminate", "detail": out.detail}, ses, counters, spec, seam, faults)
            return _done(_viol("shuffle_failed", out.cls + ":" + exc_signature(out.exc), out.detail, world=wi), ses, counters, spec, seam, faults)
        parts = out.obs
        if len(parts) != n_out:
            return _done(_viol("partition_count", "computed", "computed %d partitions, reported %d" % (len(parts), n_out), world=wi), ses, counters, spec, seam, faults)
        allrows = pd.concat(parts) if len(parts) > 1 else parts[0]
        got_obs = observe(allrows, labels=not ii, order=False, kinds=False)
        eq, why = obs_equal(in_obs, got_obs)
        if not eq:
            return _done(_viol("conservation", why.split(" ")[0], why, world=wi), ses, counters, spec, seam, faults)
        kp = {}
        for pi, p in enumerate(parts):
            for kv in set(_keys_of(p, on)):
                if kv in kp and kp[kv] != pi:
                    return _done(_viol("colocation", "split_key", "key %s in partitions %d and %d" % (kv, kp[kv], pi), world=wi), ses, counters, spec, seam, faults)
                kp[kv] = pi
        if key_part is None:
            key_part = kp
            first_parts = parts
        elif kp != key_part:
            return _done(_viol("colocation", "schedule_dependent_assignment", "key->partition map differs between schedules", world=wi), ses, counters, spec, seam, faults)
        counters["rows"] += len(allrows)
        counters["keys"] += len(kp)
        if n_in > 1 and n_out > 1 and len({v for v in kp.values()}) > 1:
            nontrivial = True
    # subset of output partitions
    if spec.get("subset") and first_parts is not None:
        P = [p for p in spec["subset"] if p < n_out]
        if P:
            sub = sh.partitions[P]
            out, _ = _partitions(ses, sub, S.World.from_json(spec["worlds"][-1]), fuse)
            counters["subset_checks"] += 1
            if out.cls != "ok":
                if out.cls != "refusal":
                    return _done(_viol("subset_failed", exc_signature(out.exc), out.detail), ses, counters, spec, seam, faults)
            else:
                sp = out.obs
                if len(sp) != len(P):
                    return _done(_viol("subset", "count", "asked %d partitions got %d" % (len(P), len(sp))), ses, counters, spec, seam, faults)
                for p, got in zip(P, sp):
                    a = observe(first_parts[p], labels=not ii, order=False, kinds=False)
                    b = observe(got, labels=not ii, order=False, kinds=False)
                    eq, why = obs_equal(a, b)
                    if not eq:
                        return _done(_viol("subset", "content", "partition %d: %s" % (p, why)), ses, counters, spec, seam, faults)
    # two different subsets of one shuffle inside one graph
    if spec.get("subset") and spec.get("subset2") and first_parts is not None:
        import dask_expr as dx

        P1 = [p for p in spec["subset"] if p < n_out]
        P2 = [p for p in spec["subset2"] if p < n_out]
        if P1 and P2 and P1 != P2:
            both = dx.concat([sh.partitions[P1], sh.partitions[P2]])
            out = ses.run(lambda sch: both.compute(scheduler=sch.get, fuse=fuse), S.World.from_json(spec["worlds"][0]), monitor=False,
                          observe_fn=lambda v: observe(v, labels=not ii, order=False, kinds=False))
            counters["subset_checks"] += 1
            if out.cls == "ok":
                exp = pd.concat([first_parts[p] for p in P1 + P2])
                eq, why = obs_equal(observe(exp, labels=not ii, order=False, kinds=False), out.obs)
                if not eq:
                    return _done(_viol("subset", "two_subsets_one_graph", "concat of partitions %s and %s of one shuffle: %s" % (P1, P2, why)), ses, counters, spec, seam, faults)
            elif out.cls not in ("refusal",):
                return _done(_viol("subset_failed", "two_subsets:" + (exc_signature(out.exc) if out.exc else out.cls), out.detail), ses, counters, spec, seam, faults)
    # twin frame: same key values in another numeric dtype -> same partition number
    if spec.get("twin") and key_part is not None:
        try:
            tpdf, tsrc, tsh = _mk(spec, twin=spec["twin"], force_out=n_out)
        except Exception as e:
            if classify(e) == "refusal":
                tsh = None
            else:
                return _done(_viol("twin_failed", "build:" + exc_signature(e), exc_detail(e)), ses, counters, spec, seam, faults)
        out = None
        if tsh is not None:
            out, _ = _partitions(ses, tsh, S.World.from_json(spec["worlds"][0]), fuse)
        counters["twin_checks"] += 1
        if out is None:
            pass
        elif out.cls == "ok":
            if len(out.obs) != n_out:
                return _done(_viol("twin", "count", "twin has %d partitions vs %d" % (len(out.obs), n_out)), ses, counters, spec, seam, faults)
            for pi, p in enumerate(out.obs):
                for kv in set(_keys_of(p, on)):
                    if kv in key_part and key_part[kv] != pi:
                        return _done(_viol("twin", "partition_mismatch", "key %s: partition %d in the frame, %d in its %s twin" % (
                            kv, key_part[kv], pi, spec["twin"]["dtype"])), ses, counters, spec, seam, faults)
        elif out.cls != "refusal":
            return _done(_viol("twin_failed", exc_signature(out.exc), out.detail), ses, counters, spec, seam, faults)
    # partd faults (disk method): the drawn position plus, for small graphs, every append / read position
    f = (spec.get("partd") or {}).get("fault")
    if f and spec["method"] == "disk":
        # how many appends / reads one fault-free run performs with this buffer size
        seam.appends = 0
        seam.gets = 0
        probe, _ = _partitions(ses, sh, S.World.from_json(spec["worlds"][0]), fuse)
        n_app, n_get = seam.appends, seam.gets
        positions = [(f["kind"], f["at"])]
        if spec.get("enumerate_faults", True):
            if 0 < n_app <= 6:
                positions += [("append", k) for k in range(n_app)]
            if 0 < n_get <= 4:
                positions += [("get", k) for k in range(n_get)]
        seen_pos = set()
        for kind_, at_ in positions:
            if (kind_, at_) in seen_pos:
                continue
            seen_pos.add((kind_, at_))
            counters["fault_runs"] += 1
            seam.appends = 0
            seam.gets = 0
            seam.fired = []
            seam.fail_append_at = seam.fail_get_at = None
            if kind_ in ("append", "torn"):
                seam.fail_append_at = at_
                seam.torn = kind_ == "torn"
            else:
                seam.fail_get_at = at_
            out, _ = _partitions(ses, sh, S.World.from_json(spec["worlds"][0]), fuse)
            fired = list(seam.fired)
            seam.disarm()
            for k in fired:
                faults[k] = faults.get(k, 0) + 1
            if fired:
                if out.cls == "ok":
                    # a frame came back although a write/read failed underneath
                    allrows = pd.concat(out.obs) if len(out.obs) > 1 else out.obs[0]
                    got_obs = observe(allrows, labels=not ii, order=False, kinds=False)
                    eq, why = obs_equal(in_obs, got_obs)
                    return _done(_viol("fault_swallowed", fired[0] + (":rows_lost" if not eq else ":complete"),
                                       "compute returned a frame although %s fired at position %d (%s)" % (fired[0], at_, why or "rows complete")), ses, counters, spec, seam, faults)
                counters["fault_raised"] += 1
                # recovery: the same collection computed again, fault-free, is correct
                out2, _ = _partitions(ses, sh, S.World.from_json(spec["worlds"][0]), fuse)
                if out2.cls != "ok":
                    return _done(_viol("no_recovery", exc_signature(out2.exc) if out2.exc else out2.cls, out2.detail), ses, counters, spec, seam, faults)
                allrows = pd.concat(out2.obs) if len(out2.obs) > 1 else out2.obs[0]
                eq, why = obs_equal(in_obs, observe(allrows, labels=not ii, order=False, kinds=False))
                if not eq:
                    return _done(_viol("no_recovery", "rows", "after a failed shuffle (fault at %s %d) the next compute lost/duplicated rows: %s" % (kind_, at_, why)), ses, counters, spec, seam, faults)
            else:
                counters["fault_not_reached"] += 1
        counters["fault_positions_enumerated"] = counters.get("fault_positions_enumerated", 0) + (1 if len(seen_pos) > 1 else 0)
    return _done({"verdict": "ok", "nontrivial": nontrivial}, ses, counters, spec, seam, faults)


def _done(res, ses, counters, spec, seam, faults):
    res.setdefault("nontrivial", res["verdict"] == "violation")
    counters.update(ses.totals)
    counters["partd_appends"] = seam.appends
    counters["partd_gets"] = seam.gets
    res["counters"] = counters
    res["faults"] = faults
    res["interleavings"] = sorted(ses.order_digests)
    res["policies"] = ses.policies
    res["probes"] = {"staged_shuffle": counters.get("staged", 0), "disk_spilled_to_files": 1 if seam.appends else 0}
    res["case_digest"] = R.digest({k: v for k, v in spec.items() if k not in ("hash_seed", "run_seed")})
    return res


def shrink_candidates(spec):
    t = spec["table"]
    if t["rows"] > 4:
        s = dict(spec)
        s["table"] = dict(t, rows=max(4, t["rows"] // 2))
        yield s
    for key in ("subset2", "subset", "twin", "partd"):
        if spec.get(key):
            s = dict(spec)
            s.pop(key)
            yield s
    if len(spec["worlds"]) > 1:
        for i in range(len(spec["worlds"])):
            s = dict(spec)
            s["worlds"] = spec["worlds"][:i] + spec["worlds"][i + 1:]
            yield s
    for i, w in enumerate(spec["worlds"]):
        for k, v in (("workers", 1), ("policy", "fifo"), ("transfer", "ref"), ("gc_prob", 0.0), ("stall", None)):
            if w.get(k) != v:
                s = dict(spec)
                s["worlds"] = spec["worlds"][:i] + [dict(w, **{k: v})] + spec["worlds"][i + 1:]
                yield s
    for k, vals in (("n_in", (1, 2, spec["n_in"] // 2, spec["n_in"] - 1)), ("n_out", (1, 2, (spec["n_out"] or 2) // 2, (spec["n_out"] or 2) - 1))):
        for v in vals:
            if spec[k] is not None and 1 <= v < spec[k]:
                s = dict(spec)
                s[k] = v
                yield s
    if spec["ignore_index"]:
        yield dict(spec, ignore_index=False)
    if spec["fuse"]:
        yield dict(spec, fuse=False)
    if t["index"] != "range":
        s = dict(spec)
        s["table"] = dict(t, index="range")
        yield s
    if spec["on"] and len(spec["on"]) > 1:
        yield dict(spec, on=["k"])
    if (spec.get("partd") or {}).get("fault"):
        f = spec["partd"]["fault"]
        if f["at"] > 0:
            s = dict(spec)
            s["partd"] = dict(spec["partd"], fault=dict(f, at=f["at"] // 2))
            yield s

"""C10 — execution knobs change performance only, never results.

spec = {recipe (ops carry knob_names), alts: [{knobs: {op id: {...}}, fuse, config_method, world}]}
Reference: the same recipe with every knob at its default, fuse=True, 1-worker FIFO.
Each alt rebuilds the recipe with a drawn knob vector (swarm style) and must give an equal
observation (row multiset; layout ignored).  Explicit construction errors are refusals.
Probes record which algorithm the planner actually selected.
"""
from __future__ import annotations

import copy

import dask

from sim import rng as R
from sim import sched as S
from sim import workload as W
from sim.fingerprint import obs_equal
from sim.world import Session, classify, exc_detail, exc_signature, reference_world

PROPERTY = "C10"
SESSIONS = {"quick": 200, "thorough": 400}
BUDGET_S = {"quick": 80, "thorough": 1500}
CAP_S = {"quick": 240, "thorough": 480}
RULE = ("one session = one generated recipe containing knob-bearing ops (reductions, groupby, merge, sort/set_index, shuffle, "
        "drop_duplicates/unique/value_counts) x K drawn knob vectors (split_every, split_out, shuffle_method keyword and config, "
        "max_branch, broadcast, npartitions hints, upsample, fuse) with partition counts on both sides of the selection thresholds; "
        "distinct = distinct digest of (recipe, knob vectors); non-trivial = at least one non-default knob vector built, computed and was compared")
ASSUMPTIONS = [
    "reference = the same recipe at default knobs on the 1-worker FIFO simulated scheduler (dask-expr itself, no pandas semantics encoded)",
    "observations compare row multisets; row order / labels only where the query defines them",
]
KNOB_FAMILIES = ("reduce", "groupby", "merge", "set_index", "sort_values", "shuffle", "dedup", "value_counts", "groupby_udf")
PLAN_PROBES = ("TreeReduce", "ShuffleReduce", "BroadcastJoin", "BlockwiseMerge", "HashJoinP2P", "TaskShuffle", "DiskShuffle",
               "SimpleShuffle", "SetIndexBlockwise", "SortValuesBlockwise", "Fused", "RepartitionToFewer", "RepartitionToMore",
               "GroupByReduction", "DecomposableGroupbyAggregation", "SetPartition", "_SetIndexPost")


def excluded_knobs(op):
    """Generator exclusions for the known findings listed in /verif/known_findings.json
    (each has a dedicated probe that is re-run by every check):
      KF-C10-size-name      groupby(...).size(split_out>1) may name the result NaN
      KF-C10-cat-unobserved groupby on a categorical key with observed=False and split_out>1
                            emits the unobserved categories once per output partition"""
    if op["op"] == "groupby_agg":
        if op.get("fn") == "size" or op.get("observed") is False:
            return ("split_out",)
    return ()


def draw_knobs(rng, recipe, space):
    out = {}
    for op in recipe["ops"]:
        names = op.get("knob_names")
        if not names:
            continue
        kn = {}
        for n in names:
            if n in excluded_knobs(op):
                continue
            if rng.random() < 0.7:
                choices = list(space[n])
                nps = [x for x in (op.get("src_nparts") or []) if isinstance(x, int)]
                if nps and n in ("npartitions_hint", "sort_npartitions", "split_every", "max_branch"):
                    # values on both sides of (and exactly at) the thresholds created by the input partition counts
                    around = sorted({v for x in nps for v in (x - 1, x, x + 1) if v >= (2 if n in ("split_every", "max_branch") else 1)})
                    choices = choices + around + around
                kn[n] = rng.choice(choices)
        out[str(op["id"])] = kn
    return out


def generate(run_seed, tier):
    rw = R.stream(run_seed, "workload")
    rk = R.stream(run_seed, "knobs")
    rs = R.stream(run_seed, "sched")
    ses = Session()
    try:
        fams = list(W.FAMILIES)
        rw.shuffle(fams)
        fams = [f for f in fams[: rw.randint(6, len(fams))] if f not in ("cut", "twin")]
        # bias towards knob-bearing families
        fams += [f for f in KNOB_FAMILIES if rw.random() < 0.8]
        refw = reference_world()

        def ref_compute(coll):
            out = ses.compute(coll, refw, monitor=False, admission_check=False)
            if out.cls != "ok":
                raise out.exc

        g = W.Generator(rw, ref_compute, families=fams, knob_space=W.knob_space_default(), max_ops=6 if tier == "quick" else 8,
                        pool_knobs=False, knob_prob=0.0, max_parts=rw.choice([9, 12, 17, 20]))
        g.prefer_null_keys = True
        recipe = g.generate()
        if recipe is None or not recipe["targets"]:
            return None
        recipe = W.prune(recipe)
        if not any(op.get("knob_names") for op in recipe["ops"]):
            # nothing to vary except fuse: still a (cheap) session
            pass
        space = W.knob_space_default()
        n_alt = 3 if tier == "quick" else 6
        alts = []
        for i in range(n_alt):
            alts.append({
                "knobs": draw_knobs(rk, recipe, space),
                "fuse": rk.random() < 0.7,
                "config_method": rk.choice([None, None, "tasks", "disk"]),
                "world": S.World.draw(rs).to_json() if rk.random() < 0.3 else None,
            })
        return {"property": PROPERTY, "recipe": recipe, "alts": alts}
    finally:
        ses.close()


def apply_knobs(recipe, knobs):
    r = copy.deepcopy(recipe)
    for op in r["ops"]:
        if str(op["id"]) in knobs:
            op["knobs"] = dict(knobs[str(op["id"])])
        elif "knobs" in op:
            op["knobs"] = {}
    return r


def execute(spec):
    ses = Session()
    try:
        return _execute(spec, ses)
    finally:
        ses.close()


def _plan_probe(coll, fuse, probes):
    try:
        opt = coll.optimize(fuse=fuse)
        for e in opt.expr.walk():
            n = type(e).__name__
            if n in PLAN_PROBES:
                probes[n] = probes.get(n, 0) + 1
            if n == "Fused":
                for x in e.exprs:
                    nn = type(x).__name__
                    if nn in PLAN_PROBES:
                        probes[nn] = probes.get(nn, 0) + 1
    except Exception:
        pass


def _execute(spec, ses):
    recipe = spec["recipe"]
    det = recipe.get("det", {})
    counters = {"alts": 0, "compared": 0, "refusals": 0, "knob_values": 0}
    probes = {}
    refw = reference_world()
    base = W.build(recipe, use_knobs=False)
    refs = {}
    refs_parts = {}
    for t in recipe["targets"]:
        refs[t] = ses.compute(base[t], refw, fuse=True, monitor=False, det=det.get(str(t), {}))
        refs_parts[t] = ses.compute_parts(base[t], refw, fuse=True, det=det.get(str(t), {}))
        _plan_probe(base[t], True, probes)
    nontrivial = False
    for ai, alt in enumerate(spec["alts"]):
        counters["alts"] += 1
        r2 = apply_knobs(recipe, alt["knobs"])
        cfg = {}
        if alt.get("config_method"):
            cfg["dataframe.shuffle.method"] = alt["config_method"]
        with dask.config.set(cfg):
            try:
                pool = W.build(r2, use_knobs=True)
            except Exception as e:
                if classify(e) == "refusal":
                    counters["refusals"] += 1
                    continue
                return _done({"verdict": "violation", "oracle": "knob_build_failure", "signature": exc_signature(e),
                              "detail": exc_detail(e), "alt": ai}, ses, counters, spec, probes)
            world = S.World.from_json(alt["world"]) if alt.get("world") else refw
            for t in recipe["targets"]:
                ref = refs[t]
                if ref.cls != "ok":
                    continue
                d = det.get(str(t), {})
                # knobs may change the partition layout: order is only compared when the query defines it
                got = ses.compute(pool[t], world, fuse=alt["fuse"], monitor=False, det=d)
                _plan_probe(pool[t], alt["fuse"], probes)
                nvals = sum(len(v) for v in alt["knobs"].values())
                counters["knob_values"] += nvals
                if got.cls == "ok":
                    eq, why = obs_equal(ref.obs, got.obs)
                    counters["compared"] += 1
                    if nvals or not alt["fuse"] or alt.get("config_method"):
                        nontrivial = True
                    if not eq:
                        if not spec.get("no_gate") and not ses.reference_is_self_consistent(base[t], ref.obs, refw, det=d):
                            # the default-knob query disagrees with its own unoptimized execution: no well-defined reference
                            counters["inconsistent_reference"] = counters.get("inconsistent_reference", 0) + 1
                            continue
                        return _done({"verdict": "violation", "oracle": "knob_divergence", "signature": _sig(r2, alt, why),
                                      "detail": why, "alt": ai, "target": t}, ses, counters, spec, probes)
                elif got.cls == "refusal":
                    counters["refusals"] += 1
                else:
                    return _done({"verdict": "violation", "oracle": "knob_failure", "signature": got.cls + ":" + exc_signature(got.exc),
                                  "detail": got.detail, "alt": ai, "target": t}, ses, counters, spec, probes)
                # the multi-partition route (no repartition(1) collapse): what persist / dask.compute(q) users get
                rp = refs_parts[t]
                if rp.cls == "ok":
                    gp = ses.compute_parts(pool[t], world, fuse=alt["fuse"], det=d)
                    if gp.cls == "ok":
                        eq, why = obs_equal(rp.obs, gp.obs)
                        counters["compared"] += 1
                        if not eq:
                            return _done({"verdict": "violation", "oracle": "knob_divergence", "signature": "parts:" + _sig(r2, alt, why),
                                          "detail": "partition-wise execution: " + why, "alt": ai, "target": t}, ses, counters, spec, probes)
                    elif gp.cls not in ("refusal",):
                        return _done({"verdict": "violation", "oracle": "knob_failure", "signature": "parts:" + gp.cls + ":" + (exc_signature(gp.exc) if gp.exc else ""),
                                      "detail": gp.detail, "alt": ai, "target": t}, ses, counters, spec, probes)
    return _done({"verdict": "ok", "nontrivial": nontrivial}, ses, counters, spec, probes)


def _sig(recipe, alt, why):
    # which knob-bearing op kinds are present + kind of difference
    kinds = sorted({op["op"] for op in recipe["ops"] if alt["knobs"].get(str(op["id"]))})
    return "%s|%s" % (",".join(kinds), (why or "").split(" ")[0])


def _done(res, ses, counters, spec, probes):
    res.setdefault("nontrivial", res["verdict"] == "violation")
    counters.update(ses.totals)
    res["counters"] = counters
    res["probes"] = probes
    res["interleavings"] = sorted(ses.order_digests)
    res["policies"] = ses.policies
    res["case_digest"] = R.digest({"recipe": spec["recipe"], "alts": spec["alts"]})
    return res


def shrink_candidates(spec):
    from sim.minimize import recipe_candidates

    alts = spec["alts"]
    if len(alts) > 1:
        for i in range(len(alts)):
            yield dict(spec, alts=[alts[i]])
    for r in recipe_candidates(spec["recipe"]):
        ids = {str(op["id"]) for op in r["ops"]}
        yield dict(spec, recipe=r, alts=[dict(a, knobs={k: v for k, v in a["knobs"].items() if k in ids}) for a in alts])
    for i, a in enumerate(alts):
        for opid, kn in sorted(a["knobs"].items()):
            for k in sorted(kn):
                a2 = copy.deepcopy(a)
                del a2["knobs"][opid][k]
                yield dict(spec, alts=alts[:i] + [a2] + alts[i + 1:])
        if not a["fuse"]:
            yield dict(spec, alts=alts[:i] + [dict(a, fuse=True)] + alts[i + 1:])
        if a.get("config_method"):
            yield dict(spec, alts=alts[:i] + [dict(a, config_method=None)] + alts[i + 1:])
        if a.get("world"):
            yield dict(spec, alts=alts[:i] + [dict(a, world=None)] + alts[i + 1:])

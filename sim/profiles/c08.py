"""C08 — expression names are deterministic and collision-free.

Determinism: the transcript (names of all nodes in walk order, output keys, sorted graph keys at every optimizer
stage) of each target is taken (a) twice while the first build is alive, (b) after dropping it and collecting,
(c) in a pristine process, (d) in pristine processes under two other PYTHONHASHSEEDs, (e) after unrelated queries
were built/optimized/computed here, (f) with the recipe constructed in another valid order.  All must be identical.
The uuid shim is OFF here: disk-shuffle helper keys are reduced to their prefix (known finding KF-C08-disk-uuid).
Collision-freeness: siblings = the same recipe with exactly one thing changed (a parameter value, int vs float
literal, one cell of the input, the index, source layout).  A sibling built after its original in the same
process must not share a name with it unless both are the same query, and must compute its own answer.
"""
from __future__ import annotations

import copy
import gc

from sim import pristine
from sim import rng as R
from sim import workload as W
from sim.fingerprint import obs_equal
from sim.world import Session, classify, exc_signature, reference_world

PROPERTY = "C08"
SESSIONS = {"quick": 120, "thorough": 150}
BUDGET_S = {"quick": 110, "thorough": 1500}
CAP_S = {"quick": 240, "thorough": 480}
RULE = ("one session = one generated recipe: transcripts of every target are compared across (second build, rebuild after drop+GC, pristine "
        "process, 2 other PYTHONHASHSEEDs, unrelated history, reversed construction order) and up to 3 single-change siblings are built after "
        "their original and compared by name and by result with their own pristine run; distinct = distinct digest of (recipe, siblings); "
        "non-trivial = cross-process transcripts were compared and at least one sibling was evaluated")
ASSUMPTIONS = ["two queries count as different when their pristine observations differ (benign aliases of equal queries are only counted)",
               "disk-shuffle helper keys (zpartd-/shuffle-partition-/barrier-) are compared by prefix only; their uuid is a listed known finding"]

NUM_PARAMS = {"shift": "periods", "diff": "periods", "rolling": "window", "head": "n", "tail": "n"}


def _sibling_candidates(rng, recipe):
    """Yield (description, modified recipe) with exactly one change."""
    ops = recipe["ops"]
    out = []
    for op in ops:
        o = op["op"]
        i = op["id"]

        def mod(**kw):
            r = copy.deepcopy(recipe)
            for x in r["ops"]:
                if x["id"] == i:
                    x.update(kw)
            return r

        if o in NUM_PARAMS:
            k = NUM_PARAMS[o]
            out.append(("%s.%s+1" % (o, k), mod(**{k: op.get(k, 1) + 1})))
        if o == "repartition" and op.get("npartitions"):
            out.append(("repartition.npartitions+1", mod(npartitions=op["npartitions"] + 1)))
        if o == "repartition" and op.get("partition_size"):
            out.append(("repartition.partition_size", mod(partition_size={"200B": "100B", "500B": "200B", "1kiB": "300B", "4kiB": "500B"}.get(op["partition_size"], "150B"))))
        if o == "reduce" and op.get("fn") in ("var", "std"):
            out.append(("reduce ddof", mod(ddof={0: 1, 1: 0, 2: 1}.get(op.get("ddof", 1), 0))))
        if op.get("knob_names"):
            kn = dict(op.get("knobs") or {})
            name = rng.choice(op["knob_names"])
            space = [v for v in W.knob_space_default().get(name, []) if v != kn.get(name)]
            if space:
                kn[name] = rng.choice(space)
                out.append(("knob %s of %s" % (name, o), mod(knobs=kn)))
        if o == "series_map" and "value" in op:
            out.append(("series_map.value int->float", mod(value=float(op["value"]))))
            out.append(("series_map.value+1", mod(value=op["value"] + 1)))
        if o == "fillna":
            out.append(("fillna int->float", mod(value=float(op["value"]))))
            out.append(("fillna+1", mod(value=op["value"] + 1)))
        if o == "map_partitions" and "c" in (op.get("kwargs") or {}):
            out.append(("udf kwarg c+1", mod(kwargs={"c": op["kwargs"]["c"] + 1})))
            out.append(("udf kwarg int->float", mod(kwargs={"c": float(op["kwargs"]["c"])})))
        if o == "assign" and op["expr"][0] in ("add", "mul", "sub") and op["expr"][2][0] == "lit":
            e = copy.deepcopy(op["expr"])
            e[2][1] = e[2][1] + 1
            out.append(("assign literal+1", mod(expr=e)))
        if o == "filter":
            p = copy.deepcopy(op["pred"])
            if p[0] in ("gt", "ge", "lt", "le") and isinstance(p[2], (int, float)):
                p[2] = p[2] + 1
                out.append(("filter literal+1", mod(pred=p)))
            if p[0] == "gt":
                out.append(("filter gt->ge", mod(pred=["ge"] + p[1:])))
        if o == "sort_values":
            out.append(("sort ascending flipped", mod(ascending=not op.get("ascending", True))))
        if o == "groupby_agg" and op.get("fn") in ("sum", "min", "max", "mean"):
            out.append(("groupby fn", mod(fn={"sum": "max", "min": "max", "max": "min", "mean": "sum"}[op["fn"]])))
        if o == "reduce" and op["fn"] in ("sum", "min", "max", "mean"):
            out.append(("reduce fn", mod(fn={"sum": "max", "min": "max", "max": "min", "mean": "sum"}[op["fn"]])))
        if o == "merge":
            out.append(("merge how", mod(how={"inner": "left", "left": "inner", "right": "inner", "outer": "inner", "leftsemi": "inner"}[op.get("how", "inner")])))
        if o == "shuffle" and op.get("npartitions"):
            out.append(("shuffle.npartitions+1", mod(npartitions=op["npartitions"] + 1)))
        if o == "from_pandas":
            if op.get("npartitions"):
                out.append(("from_pandas.npartitions+1", mod(npartitions=op["npartitions"] + 1)))
            out.append(("from_pandas.sort flipped", mod(sort=not op.get("sort", True))))
        if o in ("from_map", "from_delayed"):
            out.append(("%s.nblocks+1" % o, mod(nblocks=op["nblocks"] + 1)))
        if o == "drop_duplicates" and op.get("subset") and len(op["subset"]) > 1:
            out.append(("drop_duplicates subset shorter", mod(subset=op["subset"][:1])))
        if o == "nlargest":
            out.append(("nlargest.n+1", mod(n=op["n"] + 1)))
            out.append(("nlargest<->nsmallest", mod(fn={"nlargest": "nsmallest", "nsmallest": "nlargest"}[op["fn"]])))
        if o == "loc_slice":
            out.append(("loc hi+1", mod(hi=op["hi"] + 1)))
        if o == "where":
            out.append(("where other+1", mod(other=op["other"] + 1)))
            out.append(("where<->mask", mod(mode={"where": "mask", "mask": "where"}[op["mode"]])))
        if o == "round":
            out.append(("round decimals+1", mod(decimals=op["decimals"] + 1)))
        if o == "quantile":
            out.append(("quantile q", mod(q={0.25: 0.5, 0.5: 0.9, 0.9: 0.25}.get(op["q"], 0.5))))
        if o == "frame_isin":
            out.append(("isin values", mod(values=list(op["values"]) + [3])))
        if o == "dt_attr":
            out.append(("dt attr", mod(attr={"day": "month", "month": "day", "dayofweek": "day", "year": "month"}[op["attr"]])))
        if o == "sample" and "rs_seed" in op:
            out.append(("sample seed+1", mod(rs_seed=op["rs_seed"] + 1)))
        if o == "groupby_agg" and op.get("fn") in ("var", "std"):
            out.append(("groupby var<->std", mod(fn={"var": "std", "std": "var"}[op["fn"]])))
        if o == "project" and len(op["columns"]) > 1:
            out.append(("project order", mod(columns=list(reversed(op["columns"])))))
    n_param = len(out)
    for tname, t in sorted(recipe["tables"].items()):
        r = copy.deepcopy(recipe)
        col = rng.choice(sorted(t["cols"]))
        r["tables"][tname]["flip"] = [rng.randrange(t["rows"]), col]
        out.append(("one cell of %s.%s" % (tname, col), r))
        if t.get("index", "range") in ("range", "int_sorted", "float_sorted", "int_unsorted"):
            r = copy.deepcopy(recipe)
            r["tables"][tname]["index_shift"] = 1
            out.append(("index of %s shifted, values unchanged" % tname, r))
        if len(t["cols"]) > 1:
            r = copy.deepcopy(recipe)
            names = list(t["cols"])
            r["tables"][tname]["cols"] = {k: t["cols"][k] for k in reversed(names)}
            out.append(("column order of %s" % tname, r))
    params, data = out[:n_param], out[n_param:]
    rng.shuffle(params)
    rng.shuffle(out)
    # the first slot goes to a parameter-level change if there is one (one operand of one operation differs: the
    # case a name that ignores an operand collides on); the shuffled rest follows
    if params:
        out = [params[0]] + [x for x in out if x is not params[0]]
    return out


def generate(run_seed, tier):
    rw = R.stream(run_seed, "workload")
    rh = R.stream(run_seed, "history")
    ses = Session()
    try:
        fams = list(W.FAMILIES)
        rw.shuffle(fams)
        fams = fams[: rw.randint(8, len(fams))]
        if rw.random() < 0.5:
            # wider operator coverage (where/mask, loc, nlargest, accessors, melt, combine_first, ...)
            fams += rw.sample(list(W.EXTENDED_FAMILIES), rw.randint(2, len(W.EXTENDED_FAMILIES)))
        if rw.random() < 0.5:
            # operations whose parameters travel as keyword dictionaries inside the expression (ddof, split_every, ...)
            fams += ["reduce", "reduce", "groupby"]
        refw = reference_world()

        def ref_compute(coll):
            out = ses.compute(coll, refw, monitor=False, admission_check=False)
            if out.cls != "ok":
                raise out.exc

        g = W.Generator(rw, ref_compute, families=fams, knob_space=W.knob_space_default(), max_ops=6 if tier == "quick" else 8,
                        pool_knobs=True, knob_prob=0.5)
        # a persisted collection is named after its *data*; downstream of a disk shuffle the row order inside partitions
        # follows the task order, which follows the uuid-bearing helper keys (listed finding F2) - not a naming question
        g.allow_persist = False
        g.allow_partition_size = True
        recipe = g.generate(n_targets=1)
        if recipe is None or not recipe["targets"]:
            return None
        full = recipe
        recipe = W.prune(recipe)
        others = [op["id"] for op in full["ops"] if op["id"] not in {o["id"] for o in recipe["ops"]}][:4]
        sibs = []
        for desc, r in _sibling_candidates(rh, recipe)[: 3 if tier == "quick" else 5]:
            sibs.append({"what": desc, "recipe": r})
        return {"property": PROPERTY, "recipe": recipe, "history_recipe": W.prune(full, others) if others else None, "history_ids": others,
                "other_seeds": rh.sample(R.HASH_SEEDS, 3), "siblings": sibs}
    finally:
        ses.close()


def execute(spec):
    ses = Session(uuid_shim=False)
    try:
        return _execute(spec, ses)
    finally:
        ses.close()


def _v(oracle, sig, detail, **kw):
    d = {"verdict": "violation", "oracle": oracle, "signature": sig, "detail": detail}
    d.update(kw)
    return d


def _execute(spec, ses):
    recipe = spec["recipe"]
    det = recipe.get("det", {})
    hs = spec["hash_seed"]
    refw = reference_world()
    counters = {"transcripts": 0, "cross_process": 0, "siblings": 0, "benign_aliases": 0, "indeterminate": 0, "names": 0}
    # (e) unrelated history first
    if spec.get("history_recipe"):
        try:
            hp = W.build(spec["history_recipe"], use_knobs=True)
            for i in spec["history_ids"]:
                try:
                    hp[i].optimize()
                    ses.compute(hp[i], refw, monitor=False, admission_check=False)
                except Exception:
                    pass
        except Exception:
            pass
    t = recipe["targets"][0]
    pool1 = W.build(recipe, use_knobs=True)
    T1 = pristine.transcript(pool1[t])
    counters["transcripts"] += 1
    counters["names"] += sum(len(v.get("names", [])) for v in T1.values())
    # (a) second build while the first is alive
    LOCAL = ("logical", "physical", "fused")  # in-process repeats: three stages are enough, cross-process runs keep all six
    pool2 = W.build(recipe, use_knobs=True)
    T2 = pristine.transcript(pool2[t], stages=LOCAL)
    df = pristine.diff_transcripts({k: T1[k] for k in LOCAL}, T2)
    if df:
        return _done(_v("name_nondeterminism", "same_process:" + df[0], "second build in the same process: %s %s" % df), ses, counters, spec)
    # (f) another construction order
    pool3 = W.build(recipe, use_knobs=True, order="reverse")
    df = pristine.diff_transcripts({k: T1[k] for k in LOCAL}, pristine.transcript(pool3[t], stages=LOCAL))
    if df:
        return _done(_v("name_nondeterminism", "construction_order:" + df[0], "built in another order: %s %s" % df), ses, counters, spec)
    # (b) drop everything, collect, rebuild
    del pool2, pool3
    name1 = pool1[t]._name
    del pool1
    gc.collect()
    pool1 = W.build(recipe, use_knobs=True)
    df = pristine.diff_transcripts({k: T1[k] for k in LOCAL}, pristine.transcript(pool1[t], stages=LOCAL))
    counters["transcripts"] += 3
    if df:
        return _done(_v("name_nondeterminism", "after_gc:" + df[0], "rebuilt after drop + GC: %s %s" % df), ses, counters, spec)
    # (c)(d) pristine processes: same and other hash seeds
    sub = recipe
    for h in [hs] + [x for x in spec["other_seeds"] if x != hs][:2]:
        resp = pristine.call_eval(h, {"kind": "transcript", "recipe": sub, "targets": [t], "use_knobs": True, "uuid_shim": False})
        if "transcripts" not in resp:
            counters["indeterminate"] += 1
            continue
        counters["cross_process"] += 1
        df = pristine.diff_transcripts(T1, resp["transcripts"][str(t)])
        if df:
            return _done(_v("name_nondeterminism", ("hashseed:" if h != hs else "process:") + df[0],
                            "pristine process with PYTHONHASHSEED=%d, stage %s: %s" % (h, df[0], df[1])), ses, counters, spec)
    # collision-freeness: single-change siblings built after the original
    d = det.get(str(t), {})
    orig_names = _stage_names(pool1[t])
    base_obs = None
    for sib in spec.get("siblings", []):
        try:
            sp = W.build(sib["recipe"], use_knobs=True)
            sc = sp[t]
            sib_names = _stage_names(sc)
        except Exception:
            counters["indeterminate"] += 1
            continue
        counters["siblings"] += 1
        shared = [st for st in orig_names if orig_names[st] is not None and orig_names[st] == sib_names.get(st)]
        here = ses.compute(sc, refw, monitor=False, det=d, admission_check=False)
        alone = pristine.call_eval(hs, {"kind": "recipe", "recipe": sib["recipe"], "targets": [t], "use_knobs": True, "want": ["result"], "uuid_shim": False})
        if "descs" not in alone:
            counters["indeterminate"] += 1
            continue
        a = alone["descs"][str(t)].get("result")
        if not (isinstance(a, dict) and "rows" in a):
            counters["indeterminate"] += 1
            continue
        if here.cls != "ok":
            if here.cls == "refusal":
                counters["indeterminate"] += 1
                continue
            return _done(_v("sibling_fails_after_original", "%s:%s" % (sib["what"].split(" ")[0], exc_signature(here.exc) if here.exc else here.cls),
                            "sibling (%s) fails when built after its original but works alone: %s" % (sib["what"], here.detail)), ses, counters, spec)
        eq, why = obs_equal(a, here.obs)
        if not eq:
            kind = "name_collision" if shared else "sibling_result_differs_after_original"
            return _done(_v(kind, "%s:%s" % (sib["what"].split(" ")[0], ",".join(shared[:2])),
                            "sibling (%s) built after its original returns another answer than alone (%s); shared names at stages %s" % (sib["what"], why, shared)),
                         ses, counters, spec)
        # both queries inside one graph: every task key they share must denote the same task
        if base_obs is None:
            r0 = pristine.call_eval(hs, {"kind": "recipe", "recipe": recipe, "targets": [t], "use_knobs": True, "want": ["result"], "uuid_shim": False})
            base_obs = r0.get("descs", {}).get(str(t), {}).get("result")
        if isinstance(base_obs, dict) and "rows" in base_obs:
            import dask

            def both(sch, a=pool1[t], b=sc):
                return dask.compute(a.optimize(), b.optimize(), scheduler=sch.get)

            from sim.fingerprint import observe as _obs

            jo = ses.run(both, refw, monitor=False, observe_fn=lambda v: [_obs(x, labels=d.get("labels", "defined") == "defined", order=d.get("order", "open") == "defined") for x in v])
            counters["joint_computes"] = counters.get("joint_computes", 0) + 1
            if jo.cls == "ok":
                for which, want, got in (("original", base_obs, jo.obs[0]), ("sibling", a, jo.obs[1])):
                    eqj, whyj = obs_equal(want, got)
                    if not eqj:
                        return _done(_v("key_collision_in_joint_graph", "%s:%s" % (sib["what"].split(" ")[0], which),
                                        "computing a query and its sibling (%s) in one graph changes the %s's answer: %s" % (sib["what"], which, whyj)),
                                     ses, counters, spec)
            elif jo.cls == "internal":
                return _done(_v("key_collision_in_joint_graph", "%s:fails:%s" % (sib["what"].split(" ")[0], exc_signature(jo.exc) if jo.exc else jo.cls),
                                "computing a query and its sibling (%s) in one graph fails: %s" % (sib["what"], jo.detail)), ses, counters, spec)
        if shared:
            # same name: must be the same query
            if base_obs is None:
                r0 = pristine.call_eval(hs, {"kind": "recipe", "recipe": recipe, "targets": [t], "use_knobs": True, "want": ["result"], "uuid_shim": False})
                base_obs = r0.get("descs", {}).get(str(t), {}).get("result")
            if isinstance(base_obs, dict) and "rows" in base_obs:
                eq2, why2 = obs_equal(base_obs, a)
                if eq2:
                    counters["benign_aliases"] += 1
                # different queries sharing a stage name but each still computing its own answer: the shared stage is a
                # sub-plan both legitimately contain (e.g. the same source) -> not a collision of the targets themselves
    nontrivial = counters["cross_process"] >= 2 and counters["siblings"] >= 1
    return _done({"verdict": "ok", "nontrivial": nontrivial}, ses, counters, spec)


def _stage_names(coll):
    out = {}
    for st, fn in (("logical", lambda: coll._name), ("optimized", lambda: coll.optimize()._name), ("optimized_nofuse", lambda: coll.optimize(fuse=False)._name)):
        try:
            out[st] = fn()
        except Exception:
            out[st] = None
    return out


def _done(res, ses, counters, spec):
    res.setdefault("nontrivial", res["verdict"] == "violation")
    counters.update(ses.totals)
    res["counters"] = counters
    res["interleavings"] = sorted(ses.order_digests)
    res["policies"] = ses.policies
    res["probes"] = {"benign_aliases": counters["benign_aliases"]}
    res["case_digest"] = R.digest({"recipe": spec["recipe"], "siblings": [s["what"] for s in spec.get("siblings", [])]})
    return res


def shrink_candidates(spec):
    from sim.minimize import recipe_candidates

    if spec.get("history_recipe"):
        yield dict(spec, history_recipe=None, history_ids=[])
    sibs = spec.get("siblings", [])
    if len(sibs) > 1:
        for s in sibs:
            yield dict(spec, siblings=[s])
    if sibs:
        yield dict(spec, siblings=[])
    if not sibs:
        for r in recipe_candidates(spec["recipe"]):
            yield dict(spec, recipe=r)

"""C16 — collections survive serialization to another process.

The originating process plays a drawn history (other queries built / optimized / computed, small cache
capacities, GC or not), then pickles the target in the forms {built, optimized, optimized_nofuse, lowered}
at a drawn point; a pristine process (empty Expr._instances, empty LRUs, no parquet caches) loads the bytes.
Oracle: _name, meta, divisions, npartitions and the computed result there equal those reported here.
"""
from __future__ import annotations

import gc

from sim import caches, pristine
from sim import rng as R
from sim import workload as W
from sim.world import Session, classify, exc_signature, reference_world

PROPERTY = "C16"
SESSIONS = {"quick": 160, "thorough": 140}
BUDGET_S = {"quick": 110, "thorough": 1500}
CAP_S = {"quick": 240, "thorough": 480}
FORMS = ("built", "optimized", "optimized_nofuse", "lowered")
RULE = ("one session = one generated recipe x the forms {built, optimized, optimized_nofuse, lowered} pickled after a drawn originating "
        "history (extra queries built/optimized/computed, cache capacities 1..3 or 10, optional GC) and loaded in a pristine process; "
        "distinct = distinct digest of (recipe, history, forms); non-trivial = at least one form was loaded elsewhere and its name, "
        "meta, divisions and computed result were compared")
ASSUMPTIONS = ["files (none in this profile's recipes) would be durable state; every in-memory cache of the originating process is gone in the receiver",
               "the receiving process has the same PYTHONHASHSEED as the sender (cross-seed naming is C08's subject)"]


def generate(run_seed, tier):
    rw = R.stream(run_seed, "workload")
    rh = R.stream(run_seed, "history")
    ses = Session()
    try:
        fams = list(W.FAMILIES)
        rw.shuffle(fams)
        fams = [f for f in fams[: rw.randint(7, len(fams))]]
        fams += ["set_index", "sort_values", "repartition", "merge", "twin", "twin"]  # state kept outside operands lives here
        refw = reference_world()

        def ref_compute(coll):
            out = ses.compute(coll, refw, monitor=False, admission_check=False)
            if out.cls != "ok":
                raise out.exc

        g = W.Generator(rw, ref_compute, families=fams, knob_space=W.knob_space_default(), max_ops=7, pool_knobs=True, knob_prob=0.4,
                        max_rows=rw.choice([64, 64, 160, 240]))
        g.allow_sample = False
        g.allow_persist = False
        recipe = g.generate(n_targets=rw.choice([1, 2]))
        if recipe is None or not recipe["targets"]:
            return None
        full = recipe
        recipe = W.prune(recipe)
        # history: other members of the same session (share sources/columns) + their treatment
        others = [op["id"] for op in full["ops"] if op["id"] not in {o["id"] for o in recipe["ops"]}]
        hist = []
        for i in others[:6]:
            hist.append({"id": i, "do": rh.choice(["build", "optimize", "compute", "optimize_nofuse"])})
        forms = [f for f in FORMS if rh.random() < 0.75] or ["optimized"]
        # "history twin": the same query with exactly one knob / direction changed is planned first in the originating
        # process; whatever the planner cached for it must not leak into what the target reports there
        from sim.profiles.c08 import _sibling_candidates

        twins = [r_ for d_, r_ in _sibling_candidates(rh, recipe) if d_.startswith("knob ") or d_.startswith("sort ascending")]
        history_twin = twins[0] if twins and rh.random() < 0.7 else None
        return {"property": PROPERTY, "recipe": recipe, "history_recipe": W.prune(full, others) if others else None, "history": hist,
                "forms": forms, "history_twin": history_twin, "cache_cap": rh.choice([1, 2, 3, 10]), "gc_before_pickle": rh.random() < 0.5,
                "warm": rh.random() < 0.7}
    finally:
        ses.close()


def execute(spec):
    ses = Session()
    try:
        return _execute(spec, ses)
    finally:
        ses.close()


def _execute(spec, ses):
    caches.set_capacities(spec.get("cache_cap"))
    counters = {"forms": 0, "compared": 0, "indeterminate": 0, "history_steps": 0}
    refw = reference_world()
    # originating history
    if spec.get("history_recipe"):
        try:
            hp = W.build(spec["history_recipe"], use_knobs=True)
            for h in spec["history"]:
                c = hp.get(h["id"])
                if c is None:
                    continue
                counters["history_steps"] += 1
                try:
                    if h["do"] == "optimize":
                        c.optimize()
                    elif h["do"] == "optimize_nofuse":
                        c.optimize(fuse=False)
                    elif h["do"] == "compute":
                        ses.compute(c, refw, monitor=False, admission_check=False)
                except Exception:
                    pass
        except Exception:
            pass
    recipe = spec["recipe"]
    if spec.get("history_twin"):
        try:
            tp = W.build(spec["history_twin"], use_knobs=True)
            for t_ in spec["history_twin"]["targets"]:
                tp[t_].optimize()
                ses.compute(tp[t_], refw, monitor=False, admission_check=False)
            counters["history_twins"] = 1
        except Exception:
            pass
    pool = W.build(recipe, use_knobs=True)
    det = recipe.get("det", {})
    nontrivial = False
    for t in recipe["targets"]:
        coll = pool[t]
        d = det.get(str(t), {})
        if spec.get("warm"):
            # caches warm: the collection was already computed here once
            ses.compute(coll, refw, monitor=False, admission_check=False)
        for form in spec["forms"]:
            counters["forms"] += 1
            try:
                obj = pristine.apply_form(coll, form)
            except Exception:
                counters["indeterminate"] += 1
                continue
            if spec.get("gc_before_pickle"):
                gc.collect()
            here = pristine.describe(obj, d, ses)
            if isinstance(here.get("result"), dict) and "error" in here["result"]:
                counters["indeterminate"] += 1
                continue
            try:
                blob, how = pristine.dumps(obj)
            except Exception as e:
                return _done({"verdict": "violation", "oracle": "pickle_failed", "signature": "%s:%s" % (form, exc_signature(e)),
                              "detail": "%s: %s" % (type(e).__name__, str(e)[:200]), "target": t, "form": form}, ses, counters, spec)
            resp = pristine.call_eval(spec["hash_seed"], {"kind": "pickle", "blob": blob, "det": d})
            if "load_error" in resp:
                le = resp["load_error"]
                return _done({"verdict": "violation", "oracle": "load_failed", "signature": "%s:%s" % (form, le["sig"]), "detail": le["msg"],
                              "target": t, "form": form}, ses, counters, spec)
            there = resp["desc"]
            counters["compared"] += 1
            nontrivial = True
            for f in ("name", "meta", "divisions", "npartitions"):
                tv = there.get(f)
                if isinstance(tv, dict) and "error" in tv and not (isinstance(here.get(f), dict) and "error" in here[f]):
                    return _done({"verdict": "violation", "oracle": "fails_in_receiver", "signature": "%s:%s:%s" % (form, f, tv["sig"]),
                                  "detail": "%s there: %s" % (f, tv["msg"]), "target": t, "form": form}, ses, counters, spec)
            tr = there.get("result")
            if isinstance(tr, dict) and "error" in tr:
                if tr["error"] == "refusal":
                    counters["indeterminate"] += 1
                    continue
                return _done({"verdict": "violation", "oracle": "fails_in_receiver", "signature": "%s:result:%s" % (form, tr["sig"]),
                              "detail": "compute there: %s" % tr["msg"], "target": t, "form": form}, ses, counters, spec)
            df = pristine.diff_desc(here, there)
            if df is not None:
                return _done({"verdict": "violation", "oracle": "differs_in_receiver", "signature": "%s:%s" % (form, df[0]),
                              "detail": "%s: %s" % df, "target": t, "form": form}, ses, counters, spec)
            # a second receiver with another PYTHONHASHSEED (the default situation between unrelated processes)
            if spec.get("other_seed_receiver", True):
                oh = [h for h in R.HASH_SEEDS if h != spec["hash_seed"]][counters["forms"] % (len(R.HASH_SEEDS) - 1)]
                resp2 = pristine.call_eval(oh, {"kind": "pickle", "blob": blob, "det": d})
                if "desc" in resp2:
                    th = resp2["desc"]
                    counters["compared_other_seed"] = counters.get("compared_other_seed", 0) + 1
                    tr2 = th.get("result")
                    if not (isinstance(tr2, dict) and "error" in tr2):
                        df2 = pristine.diff_desc(here, th, fields=("name", "divisions", "npartitions", "result"))
                        if df2 is not None:
                            return _done({"verdict": "violation", "oracle": "differs_in_receiver", "signature": "%s:%s:other_hashseed" % (form, df2[0]),
                                          "detail": "receiver with PYTHONHASHSEED=%d: %s: %s" % (oh, df2[0], df2[1]), "target": t, "form": form}, ses, counters, spec)
    return _done({"verdict": "ok", "nontrivial": nontrivial}, ses, counters, spec)


def _done(res, ses, counters, spec):
    res.setdefault("nontrivial", res["verdict"] == "violation")
    counters.update(ses.totals)
    res["counters"] = counters
    res["interleavings"] = sorted(ses.order_digests)
    res["policies"] = ses.policies
    res["probes"] = {"cache_cap_small": 1 if (spec.get("cache_cap") or 10) < 10 else 0, "history_steps": counters["history_steps"]}
    res["case_digest"] = R.digest({k: v for k, v in spec.items() if k not in ("hash_seed", "run_seed")})
    return res


def shrink_candidates(spec):
    from sim.minimize import recipe_candidates

    if spec.get("history_recipe"):
        yield dict(spec, history_recipe=None, history=[])
    if spec.get("history_twin"):
        yield dict(spec, history_twin=None)
    if len(spec["forms"]) > 1:
        for f in spec["forms"]:
            yield dict(spec, forms=[f])
    for k, v in (("warm", False), ("gc_before_pickle", False), ("cache_cap", 10)):
        if spec.get(k) != v:
            yield dict(spec, **{k: v})
    for r in recipe_candidates(spec["recipe"]):
        yield dict(spec, recipe=r)

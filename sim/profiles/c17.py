"""C17 — materialization boundaries are transparent.

For a generated recipe chain every intermediate member that feeds a later op is a cut point; at the cut the member
is replaced by persist() (materialised on the simulated cluster under a drawn schedule), by
from_delayed(to_delayed(), meta=, divisions=) or by from_legacy_dataframe(to_legacy_dataframe()), and the tail of the
recipe is rebuilt on the re-imported collection.  The re-imported partitions are consumed by several downstream
computes under the argument-fingerprint monitor.
Oracle: final observation, meta and divisions of the cut run equal those of the uncut run; the cut run does not fail
where the uncut one succeeds.
"""
from __future__ import annotations

from sim import pristine
from sim import rng as R
from sim import sched as S
from sim import workload as W
from sim.fingerprint import obs_equal
from sim.world import Session, classify, exc_detail, exc_signature, reference_world

PROPERTY = "C17"
SESSIONS = {"quick": 140, "thorough": 500}
BUDGET_S = {"quick": 80, "thorough": 1500}
CAP_S = {"quick": 240, "thorough": 480}
RULE = ("one session = one generated recipe x every intermediate cut point (all for <= 6 ops, sampled above) x a drawn cut kind "
        "(persist with drawn schedule/fuse, delayed round trip, legacy round trip); distinct = distinct digest of (recipe, cuts); "
        "non-trivial = at least one cut whose tail has >= 1 op was rebuilt, computed twice under the fingerprint monitor and compared "
        "(result, meta, divisions) with the uncut run")
ASSUMPTIONS = ["scalar members are not used as cut points (no recipe op consumes a scalar collection as a source)",
               "the delayed round trip passes meta and divisions, as the property's statement about divisions requires"]


def generate(run_seed, tier):
    rw = R.stream(run_seed, "workload")
    rc = R.stream(run_seed, "cuts")
    rs = R.stream(run_seed, "sched")
    ses = Session()
    try:
        fams = [f for f in W.FAMILIES if f not in ("cut",)]
        rw.shuffle(fams)
        fams = fams[: rw.randint(8, len(fams))]
        refw = reference_world()

        def ref_compute(coll):
            out = ses.compute(coll, refw, monitor=False, admission_check=False)
            if out.cls != "ok":
                raise out.exc

        g = W.Generator(rw, ref_compute, families=fams + ["partitions", "headtail"], knob_space=W.knob_space_default(), max_ops=6 if tier == "quick" else 8,
                        pool_knobs=True, knob_prob=0.4)
        if rw.random() < 0.3:
            # a source that reads external mutable state: lets the session re-persist after "somebody rewrote the file".
            # Its expression name does not change with the data, so planner caches keyed by name (sort / set_index
            # divisions, partition memory sizes) are legitimately stale after the switch: those ops are not combined with it
            g.source_kinds = ("from_map_epoch",)
            g.families = [f for f in g.families if f not in ("set_index", "sort_values", "repartition", "merge", "twin")]
        recipe = g.generate(n_targets=1)
        if recipe is None or not recipe["targets"]:
            return None
        recipe = W.prune(recipe)
        t = recipe["targets"][0]
        inter = [op["id"] for op in recipe["ops"] if op["id"] != t and g.members[op["id"]].kind in ("frame", "series", "index")]
        # only members that feed a later op
        used = set()
        for op in recipe["ops"]:
            used.update(W.op_srcs(op))
        inter = [i for i in inter if i in used]
        by_id = {op["id"]: op for op in recipe["ops"]}
        # generator exclusions (known findings, each re-checked by its own probe):
        #  KF-C17-reduction-divisions: a frame reduction reports known divisions before lowering and unknown ones after
        inter = [i for i in inter if not any(by_id[j]["op"] == "reduce" and by_id[j].get("columns") for j in W.cone(recipe, [i]))]
        #  KF-C10-size-name: groupby(...).size() over empty partitions carries a NaN series name in its lowered form
        inter = [i for i in inter if not (by_id[i]["op"] == "groupby_agg" and by_id[i].get("fn") == "size")]
        # a cut separates head from tail: the remaining operations may reach the head only through the cut member
        # (a tail that also uses an ancestor of the cut directly mixes re-imported and original lineage, which
        # legitimately changes how the two sides are aligned)
        def separates(i):
            head = W.cone(recipe, [i])
            for op in recipe["ops"]:
                if op["id"] in head:
                    continue
                if any(s_ in head and s_ != i for s_ in W.op_srcs(op)):
                    return False
            return True
        inter = [i for i in inter if separates(i)]

        # the member's own declared divisions must not change when it is optimized / lowered: where they do (frame
        # reductions, head of a partition selection, ... - C06-type defects, not claimed) a cut merely exposes that
        def stable_divisions(i):
            try:
                c = g.pool[i]
                return pristine.canon_divisions(c) == pristine.canon_divisions(c.optimize()) == pristine.canon_divisions(c.optimize(fuse=False))
            except Exception:
                return False
        inter = [i for i in inter if stable_divisions(i)]
        if not inter:
            return None
        has_delayed_src = any(op["op"] == "from_delayed" for op in recipe["ops"])
        if len(inter) > 6:
            inter = sorted(rc.sample(inter, 6))
        cuts = []
        for i in inter:
            k = rc.choice(["persist", "persist", "delayed", "legacy"])
            if k == "legacy" and (has_delayed_src or "obj" in g.members[i].cols.values()):
                # KF-C17-legacy-string-conversion: the legacy frame converts unconverted str/object columns to
                # string[pyarrow] (pd.NA semantics), from_delayed sources are not converted by dask-expr
                k = "persist"
            cut = {"at": i, "kind": k}
            if k == "persist":
                cut["fuse"] = rc.random() < 0.7
                cut["world"] = S.World.draw(rs).to_json()
            if k == "delayed":
                cut["with_meta"] = rc.random() < 0.8
                cut["optimize_graph"] = rc.random() < 0.8
                cut["prefix"] = rc.choice([None, None, "reimp"])
            cuts.append(cut)
        return {"property": PROPERTY, "recipe": recipe, "cuts": cuts, "worlds": [S.World.draw(rs).to_json() for _ in range(2)]}
    finally:
        ses.close()


def execute(spec):
    ses = Session()
    try:
        return _execute(spec, ses)
    finally:
        ses.close()


def _reimport(coll, cut, ses):
    import dask_expr as dx

    k = cut["kind"]
    if k == "persist":
        world = S.World.from_json(cut["world"])
        with ses.scheduler(world, monitor=True) as sch:
            return coll.persist(scheduler=sch.get, fuse=cut.get("fuse", True))
    if k == "delayed":
        parts = coll.to_delayed(optimize_graph=cut.get("optimize_graph", True))
        kw = {"divisions": coll.divisions} if coll.known_divisions else {}
        if cut.get("with_meta", True):
            kw["meta"] = coll._meta
        if cut.get("prefix"):
            kw["prefix"] = cut["prefix"]
        return dx.from_delayed(parts, **kw)
    if k == "legacy":
        return dx.from_legacy_dataframe(coll.to_legacy_dataframe())
    raise ValueError(k)


def _v(oracle, sig, detail, **kw):
    d = {"verdict": "violation", "oracle": oracle, "signature": sig, "detail": detail}
    d.update(kw)
    return d


NO_GATE = [False]


def _gate(res, ses, uncut_coll, uncut, d):
    """A cut-vs-uncut difference counts only if the uncut query is consistent with itself: its optimized result must
    equal its unoptimized result, and its declared divisions / schema must not change under optimization."""
    if NO_GATE[0]:
        return res
    if res.get("oracle") in ("cut_changes_result", "cut_breaks_compute", "cut_changes_meta", "cut_changes_divisions", "cut_breaks_meta", "cut_breaks_divisions"):
        try:
            ok = ses.reference_is_self_consistent(uncut_coll, uncut["result"], reference_world(), det=d)
            if ok and res["oracle"] in ("cut_changes_meta", "cut_changes_divisions"):
                a = pristine.describe(uncut_coll, d, ses, compute=False, want=("meta_kinds", "divisions"))
                b = pristine.describe(uncut_coll.optimize(), d, ses, compute=False, want=("meta_kinds", "divisions"))
                c = pristine.describe(uncut_coll.optimize(fuse=False), d, ses, compute=False, want=("meta_kinds", "divisions"))
                ok = a == b == c
        except Exception:
            ok = True
        if not ok:
            return {"verdict": "indeterminate", "detail": "uncut query is not self-consistent (optimized vs unoptimized / declared structure): " + res.get("detail", "")[:200],
                    "gated": res.get("oracle")}
    return res


def _execute(spec, ses):
    NO_GATE[0] = bool(spec.get("no_gate"))  # known-finding probes are judged as recorded
    recipe = spec["recipe"]
    det = recipe.get("det", {})
    t = recipe["targets"][0]
    d = det.get(str(t), {})
    counters = {"cuts": 0, "compared": 0, "indeterminate": 0, "refusals": 0, "persist": 0, "delayed": 0, "legacy": 0, "tail_ops": 0}
    refw = reference_world()
    pool = W.build(recipe, use_knobs=True)
    uncut = pristine.describe(pool[t], d, ses, want=("meta_kinds", "divisions", "npartitions", "result"))
    uncut["meta"] = uncut.pop("meta_kinds")
    if isinstance(uncut.get("result"), dict) and "error" in uncut["result"]:
        return _done({"verdict": "indeterminate", "detail": "uncut run: %s" % uncut["result"].get("msg")}, ses, counters, spec)
    nontrivial = False
    by_id = {op["id"]: op for op in recipe["ops"]}
    for ci, cut in enumerate(spec["cuts"]):
        at = cut["at"]
        counters["cuts"] += 1
        counters[cut["kind"]] += 1
        kind_at = det.get(str(at), {}).get("kind", "?")
        sig0 = "%s:%s" % (cut["kind"], kind_at)
        try:
            re = _reimport(pool[at], cut, ses)
        except Exception as e:
            c = classify(e)
            if c == "refusal":
                counters["refusals"] += 1
                continue
            return _done(_v("cut_failed", sig0 + ":" + (c + ":" if c != "internal" else "") + exc_signature(e), "re-import at member %d (%s): %s" % (at, by_id[at]["op"], exc_detail(e)), cut=ci), ses, counters, spec)
        try:
            pool2 = W.build(recipe, use_knobs=True, override={at: re})
        except Exception as e:
            c = classify(e)
            if c == "refusal":
                counters["refusals"] += 1
                continue
            return _done(_v("tail_build_failed", sig0 + ":" + exc_signature(e), "rebuilding the tail on the re-imported member %d: %s" % (at, exc_detail(e)), cut=ci), ses, counters, spec)
        tail = len(W.cone(recipe, [t])) - len(W.cone(recipe, [at]))
        counters["tail_ops"] += tail
        cutc = pool2[t]
        # schema and divisions
        here = pristine.describe(cutc, d, ses, compute=False, want=("meta_kinds", "divisions", "npartitions"))
        here["meta"] = here.pop("meta_kinds")
        tail_ops = {by_id[i]["op"] for i in (W.cone(recipe, [t]) - W.cone(recipe, [at]))}
        # known finding KF-C17-quantile-divisions: divisions produced by set_index / sort_values come from
        # quantile sampling of the (re-imported) partitions and are not reproduced exactly after a cut
        skip_div = bool(tail_ops & {"set_index", "sort_values"}) and not spec.get("compare_divisions_always")
        # after sort_values the index is no longer ordered, whatever the plan still declares as divisions (a C06-type
        # question): divisions are not compared downstream of a sort by column either
        if any(by_id[i]["op"] == "sort_values" for i in W.cone(recipe, [at])) and not spec.get("compare_divisions_always"):
            skip_div = True
        # a multi-input op in the tail aligns its inputs by divisions; which inputs count as co-aligned depends on
        # expression identity, which a cut changes by design: the resulting divisions are valid but need not be equal
        if any(len(W.op_srcs(by_id[i])) > 1 for i in (W.cone(recipe, [t]) - W.cone(recipe, [at]))) and not spec.get("compare_divisions_always"):
            skip_div = True
        for f in ("meta", "divisions"):
            if f == "divisions" and skip_div:
                counters["divisions_skipped"] = counters.get("divisions_skipped", 0) + 1
                continue
            hv, uv = here.get(f), uncut.get(f)
            if isinstance(hv, dict) and "error" in hv and not (isinstance(uv, dict) and "error" in uv):
                if hv["error"] == "refusal":
                    counters["refusals"] += 1
                    break
                return _done(_v("cut_breaks_" + f, sig0 + ":" + hv["sig"], "%s of the cut query fails: %s" % (f, hv.get("msg")), cut=ci), ses, counters, spec)
            if hv != uv:
                if f == "divisions" and (uv is None or (isinstance(uv, list) and all(x == "∅" for x in uv))) :
                    continue
                return _done(_gate(_v("cut_changes_" + f, sig0 + ":" + by_id[t]["op"], "%s: uncut %s vs cut %s" % (f, repr(uv)[:160], repr(hv)[:160]), cut=ci), ses, pool[t], uncut, d), ses, counters, spec)
        else:
            # results: several downstream computes of the re-imported partitions, fingerprint monitor on
            for wi, wj in enumerate([None] + spec["worlds"]):
                world = S.World.from_json(wj) if wj else refw
                got = ses.compute(cutc, world, monitor=True, det=d)
                if got.cls == "ok":
                    eq, why = obs_equal(uncut["result"], got.obs)
                    counters["compared"] += 1
                    if tail >= 1:
                        nontrivial = True
                    if not eq:
                        return _done(_gate(_v("cut_changes_result", sig0 + ":" + why.split(" ")[0], "cut at member %d (%s): %s" % (at, by_id[at]["op"], why), cut=ci), ses, pool[t], uncut, d), ses, counters, spec)
                elif got.cls == "refusal":
                    counters["refusals"] += 1
                    break
                elif got.cls == "mutation":
                    return _done(_v("reimported_partition_mutated", sig0, got.detail, cut=ci), ses, counters, spec)
                else:
                    multi = any(len(W.op_srcs(by_id[i])) > 1 for i in (W.cone(recipe, [t]) - W.cone(recipe, [at])))
                    if multi and not NO_GATE[0]:
                        # a multi-input op in the tail has to align re-imported and original lineage by divisions; failures
                        # of that alignment machinery (C02/C06-type, not claimed) are not attributed to the cut
                        counters["gated_alignment_failures"] = counters.get("gated_alignment_failures", 0) + 1
                        break
                    return _done(_v("cut_breaks_compute", sig0 + ":" + (exc_signature(got.exc) if got.exc else got.cls), "cut at member %d (%s): %s" % (at, by_id[at]["op"], got.detail), cut=ci), ses, counters, spec)
    # ---- re-persist after the external source changed: the second snapshot must show the new data
    if any(op["op"] == "from_map_epoch" for op in recipe["ops"]) and spec["cuts"]:
        cut = dict(spec["cuts"][0], kind="persist", fuse=True, world=S.REFERENCE_WORLD)
        at = cut["at"]
        try:
            W.EPOCH = 0
            pool0 = W.build(recipe, use_knobs=True)
            p0 = _reimport(pool0[at], cut, ses)  # kept alive on purpose
            W.EPOCH = 1
            pool1 = W.build(recipe, use_knobs=True)
            uncut1 = ses.compute(pool1[t], refw, monitor=False, det=d)
            p1 = _reimport(pool1[at], cut, ses)
            tail1 = W.build(recipe, use_knobs=True, override={at: p1})[t]
            got1 = ses.compute(tail1, refw, monitor=False, det=d)
            counters["repersists"] = counters.get("repersists", 0) + 1
            if uncut1.cls == "ok" and got1.cls == "ok":
                eq, why = obs_equal(uncut1.obs, got1.obs)
                if not eq:
                    return _done(_v("stale_repersist", "persist:" + by_id[at]["op"], "persisting the same query again after its source changed "
                                    "still answers from the first snapshot: " + why), ses, counters, spec)
            elif uncut1.cls == "ok" and got1.cls not in ("refusal",):
                return _done(_v("cut_breaks_compute", "repersist:" + (exc_signature(got1.exc) if got1.exc else got1.cls), got1.detail), ses, counters, spec)
            del p0
        except Exception as e:
            if classify(e) != "refusal":
                return _done(_v("cut_failed", "repersist:" + exc_signature(e), exc_detail(e)), ses, counters, spec)
        finally:
            W.EPOCH = 0
    return _done({"verdict": "ok", "nontrivial": nontrivial}, ses, counters, spec)


def _done(res, ses, counters, spec):
    res.setdefault("nontrivial", res["verdict"] == "violation")
    counters.update(ses.totals)
    res["counters"] = counters
    res["interleavings"] = sorted(ses.order_digests)
    res["policies"] = ses.policies
    res["case_digest"] = R.digest({"recipe": spec["recipe"], "cuts": spec["cuts"]})
    return res


def shrink_candidates(spec):
    from sim.minimize import recipe_candidates

    cuts = spec["cuts"]
    if len(cuts) > 1:
        for c in cuts:
            yield dict(spec, cuts=[c])
    if len(spec["worlds"]) > 0:
        yield dict(spec, worlds=[])
    for i, c in enumerate(cuts):
        if c.get("world"):
            w = c["world"]
            for k, v in (("workers", 1), ("policy", "fifo"), ("transfer", "ref"), ("gc_prob", 0.0), ("stall", None)):
                if w.get(k) != v:
                    yield dict(spec, cuts=cuts[:i] + [dict(c, world=dict(w, **{k: v}))] + cuts[i + 1:])
    ats = {c["at"] for c in cuts}
    for r in recipe_candidates(spec["recipe"]):
        ids = {op["id"] for op in r["ops"]}
        if ats <= ids and not (ats & set(r["targets"])):
            yield dict(spec, recipe=r)

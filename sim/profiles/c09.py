"""C09 — task graphs are closed, acyclic, unambiguous and free of planner objects.

For every target and every optimizer stage (x fuse, shuffle methods through the
recipe's knobs, partition-filtered sources, imported graphs via persist /
from_delayed / legacy round trips) the lowered plan's graph is submitted to the
simulated cluster: admission checks (outputs, closure, cycles, ambiguity,
serialisability without planner objects), then remote-style execution (tasks and
cross-worker values shipped as bytes) that must finish with all outputs.
"""
from __future__ import annotations

import pandas as pd

from sim import graphcheck as G
from sim import rng as R
from sim import sched as S
from sim import workload as W
from sim.fingerprint import obs_equal, observe
from sim.world import Session, classify, exc_detail, exc_signature, reference_world

PROPERTY = "C09"
SESSIONS = {"quick": 160, "thorough": 500}
BUDGET_S = {"quick": 80, "thorough": 1500}
CAP_S = {"quick": 240, "thorough": 480}
STAGES = ("logical", "simplified-logical", "tuned-logical", "physical", "simplified-physical", "fused")
RULE = ("one session = one generated recipe; every target x 6 optimizer stages (+ the fused plan taken up again under one more partitionwise op: nested fused groups) is lowered, its graph checked by the simulated "
        "scheduler's admission (outputs, closure incl. fused sub-graphs, cycles, key ambiguity, pickling with planner objects forbidden) "
        "and executed on a multi-worker simulated cluster with pickled transfer; distinct = distinct recipe digest; "
        "non-trivial = at least one stage graph with > 2 tasks passed admission and was executed")


def generate(run_seed, tier):
    rw = R.stream(run_seed, "workload")
    rs = R.stream(run_seed, "sched")
    ses = Session()
    try:
        fams = list(W.FAMILIES)
        rw.shuffle(fams)
        fams = fams[: rw.randint(7, len(fams))]
        if rw.random() < 0.5:
            # wider operator coverage (where/mask, loc, nlargest, accessors, melt, combine_first, ...)
            fams += rw.sample(list(W.EXTENDED_FAMILIES), rw.randint(2, len(W.EXTENDED_FAMILIES)))
        if "cut" not in fams and rw.random() < 0.5:
            fams.append("cut")
        # bias: siblings that differ in one operand inside one graph (key-prefix collisions)
        if rw.random() < 0.6:
            fams += ["twin"] * 3 + ["window", "headtail", "repartition", "partitions", "partitions", "alias", "cut"]
        refw = reference_world()

        def ref_compute(coll):
            out = ses.compute(coll, refw, monitor=False, admission_check=False)
            if out.cls != "ok":
                raise out.exc

        g = W.Generator(rw, ref_compute, families=fams, knob_space=W.knob_space_default(), max_ops=7 if tier == "quick" else 9,
                        pool_knobs=True, knob_prob=0.6)
        g.allow_partition_size = True
        # every op that *builds* stays in the recipe even if computing it fails (also with ValueError/TypeError: an
        # unclosed graph hands key tuples to tasks as data, which often surfaces as a metadata or type error)
        g.accept_internal_failures = "all"
        # hand-written filtered tasks live in every source kind: draw them evenly
        g.source_kinds = ("from_pandas", "from_pandas", "from_map", "from_map", "from_delayed", "from_delayed", "from_array")
        recipe = g.generate(n_targets=rw.choice([1, 2, 2]))
        if recipe is None or not recipe["targets"]:
            return None
        recipe = W.prune(recipe)
        world = S.World.draw(rs)
        world.workers = max(2, world.workers)
        world.transfer = "copy"
        return {"property": PROPERTY, "recipe": recipe, "world": world.to_json()}
    finally:
        ses.close()


def execute(spec):
    ses = Session()
    try:
        return _execute(spec, ses)
    finally:
        ses.close()


def _first_of(part, side):
    return part.copy()


def _concat(parts):
    if isinstance(parts, list) and parts and isinstance(parts[0], (pd.DataFrame, pd.Series)):
        return pd.concat(parts) if len(parts) > 1 else parts[0]
    if isinstance(parts, list) and parts and isinstance(parts[0], pd.Index):
        return parts[0].append(list(parts[1:])) if len(parts) > 1 else parts[0]
    if isinstance(parts, list) and len(parts) == 1:
        return parts[0]
    return parts


def _execute(spec, ses):
    from dask.utils import M
    from dask_expr import from_pandas, new_collection
    from dask_expr._expr import Fused, optimize_until

    recipe = spec["recipe"]
    pool = W.build(recipe, use_knobs=True)
    det = recipe.get("det", {})
    counters = {"stage_graphs": 0, "fused_tasks": 0, "benign_key_overlaps": 0, "executed": 0, "stage_errors": 0,
                "pickled_bytes": 0, "imports": sum(1 for o in recipe["ops"] if o["op"] in ("persist", "delayed_roundtrip", "legacy_roundtrip")),
                "partition_filtered": sum(1 for o in recipe["ops"] if o["op"] in ("partitions", "head", "tail"))}
    nontrivial = False
    world = S.World.from_json(spec["world"])
    for t in recipe["targets"]:
        coll = pool[t]
        d = det.get(str(t), {})
        ref_obs = None
        for stage in STAGES + ("nested",):
            try:
                if stage == "nested":
                    # an already optimized (fused) plan is taken up again, as ``df.optimize().map_partitions(f)`` does:
                    # the new group contains the old one, with all of its external inputs
                    c2 = new_collection(optimize_until(coll.expr, "fused"))
                    if not isinstance(c2._meta, (pd.DataFrame, pd.Series)) or c2.npartitions < 1:
                        continue
                    # ... next to a second optimized plan over a source of its own, so that the nested groups differ in
                    # their external inputs
                    n = c2.npartitions
                    side = from_pandas(pd.DataFrame({"q__": range(4 * n)}), npartitions=n, sort=False)
                    side = new_collection(optimize_until((side + 1).expr, "fused"))
                    if side.npartitions != n:
                        continue
                    e = c2.map_partitions(_first_of, side, align_dataframes=False, meta=c2._meta).optimize(fuse=True).expr
                    counters["nested_fused"] = counters.get("nested_fused", 0) + sum(
                        1 for x in e.walk() if isinstance(x, Fused) and any(isinstance(y, Fused) for y in x.exprs))
                else:
                    e = optimize_until(coll.expr, stage)
                lowered = e.lower_completely()
            except Exception:
                counters["stage_errors"] += 1
                continue
            try:
                dsk, keys, st = G.full_check(lowered)
            except S.GraphDefect as gd:
                return _done({"verdict": "violation", "oracle": gd.kind, "signature": "%s:%s" % (stage if gd.kind in ("output_keys",) else "", _site(gd)),
                              "detail": "stage=%s %s" % (stage, gd), "target": t, "stage": stage}, ses, counters, spec)
            except Exception as ex:
                # graph construction itself failed for a plan that optimizes: not a C09 statement
                counters["stage_errors"] += 1
                continue
            if st["pending"]:
                try:
                    with ses.scheduler(reference_world(), monitor=False, admission_check=False) as sch0:
                        counters["data_vs_task_keys"] = counters.get("data_vs_task_keys", 0) + G.settle_pending(dsk, st["pending"], sch0.get)
                except S.GraphDefect as gd:
                    return _done({"verdict": "violation", "oracle": gd.kind, "signature": "import:" + _site(gd),
                                  "detail": "stage=%s %s" % (stage, gd), "target": t, "stage": stage}, ses, counters, spec)
                except Exception:
                    counters["stage_errors"] += 1
            counters["stage_graphs"] += 1
            counters["fused_tasks"] += st["fused_tasks"]
            counters["benign_key_overlaps"] += st["benign_key_overlaps"]
            counters["pickled_bytes"] += st["pickled_bytes"]
            names = G.plan_names(lowered)

            def thunk(sch, dsk=dsk, keys=keys, names=names):
                sch.extra_stems = names
                return _concat(sch.get(dsk, keys))

            out = ses.run(thunk, world, monitor=False, det=d)
            counters["executed"] += 1
            if st["tasks"] > 2 and out.cls == "ok":
                nontrivial = True
            if out.cls in ("graph", "deadlock"):
                return _done({"verdict": "violation", "oracle": "exec_" + out.cls, "signature": exc_signature(out.exc),
                              "detail": "stage=%s %s" % (stage, out.detail), "target": t, "stage": stage}, ses, counters, spec)
            if out.cls == "ok":
                if ref_obs is None:
                    ref_obs = out.obs
                else:
                    eq, why = obs_equal(ref_obs, out.obs)
                    if not eq and stage != "logical":
                        # stage results differing is C01 territory; only record it as a probe
                        counters["stage_result_diff"] = counters.get("stage_result_diff", 0) + 1
            elif out.cls == "internal":
                # the graph passed admission but a task failed when shipped / executed remotely
                # compare with by-reference single worker: if that works, the remote boundary broke it
                ref = ses.run(thunk, reference_world(), monitor=False, det=d)
                if ref.cls == "ok":
                    return _done({"verdict": "violation", "oracle": "remote_exec_failed", "signature": exc_signature(out.exc),
                                  "detail": "stage=%s %s" % (stage, out.detail), "target": t, "stage": stage}, ses, counters, spec)
                counters["stage_errors"] += 1
    return _done({"verdict": "ok", "nontrivial": nontrivial}, ses, counters, spec)


def _site(gd):
    # stable part of the detail: class prefixes of the keys involved, no tokens
    import re

    stems = re.findall(r"'([a-z_0-9\-]+?)-[0-9a-f]{32}", str(gd.detail))
    return ",".join(stems[:2]) if stems else str(gd.detail)[:40]


def _done(res, ses, counters, spec):
    res.setdefault("nontrivial", res["verdict"] != "ok")
    counters.update(ses.totals)
    res["counters"] = counters
    res["interleavings"] = sorted(ses.order_digests)
    res["policies"] = ses.policies
    res["case_digest"] = R.digest({"recipe": spec["recipe"]})
    return res


def shrink_candidates(spec):
    from sim.minimize import recipe_candidates

    for r in recipe_candidates(spec["recipe"]):
        s = dict(spec)
        s["recipe"] = r
        yield s
    w = spec["world"]
    for key, val in (("workers", 2), ("gc_prob", 0.0), ("policy", "fifo"), ("stall", None)):
        if w.get(key) != val:
            s = dict(spec)
            s["world"] = dict(w, **{key: val})
            yield s

"""C18 — parquet reads with pushed-down work equal reading everything into memory.

Everything lives on SimFS (in-memory fsspec filesystem owned by the simulator: simulated file clock, seeded listing
order, write/read fault points).  Datasets are written by to_parquet under a drawn writer-task schedule or file by
file with pyarrow (unsorted / overlapping / descending per-file index ranges), then read through both readers
(fsspec, arrow filesystem) with calculate_divisions on/off and drawn projection / predicate / partition subset /
len / head.
Oracles: (a) round trip: the full read equals the written frame, known divisions are truthful for the partitions read;
(b) each observation of the optimized (pushed-down) query equals the same operations applied to an in-memory
collection holding the full read of the same store; (c) overwrite=True from a query that reads the target is refused and
leaves every byte in place; (d) after a rewrite a new read reflects the new contents; (e) a failing file write makes
to_parquet raise and a later successful overwrite reads back exactly the new data.
"""
from __future__ import annotations

import gc

import numpy as np
import pandas as pd

from sim import caches
from sim import rng as R
from sim import sched as S
from sim import simfs
from sim import workload as W
from sim.fingerprint import _canon_scalar, obs_equal, observe
from sim.world import Session, classify, exc_detail, exc_signature, reference_world

PROPERTY = "C18"
SESSIONS = {"quick": 200, "thorough": 650}
BUDGET_S = {"quick": 80, "thorough": 1500}
CAP_S = {"quick": 240, "thorough": 480}
URL = "simfs://bucket/ds"
RULE = ("one session = one dataset on the simulated store (column dtypes incl. nulls, named/unnamed index, 1..6 files, written by "
        "to_parquet under a drawn schedule or directly with unsorted/overlapping per-file ranges; permuted listing order; drawn file-clock "
        "resolution/skew) x 2-4 read configurations (reader, calculate_divisions, projection, predicate, partition subset, len/head) "
        "+ overwrite-guard, rewrite and write-fault steps; distinct = distinct digest of the whole spec; non-trivial = a multi-file dataset "
        "was read back and at least one pushed-down observation was compared with its in-memory twin")
ASSUMPTIONS = ["pyarrow's reader threads and the statistics thread pool stay real (their outputs are gathered by position)",
               "exact (path,size,mtime) collisions between different file contents are not generated"]


def _table(rw):
    rows = rw.choice([12, 20, 30, 40, 60])
    cols = {"a": rw.choice(["int_dup", "int_dup", "float"]), "b": rw.choice(["float_nan", "float", "int_uniq"]),
            "s": rw.choice(["str", "str_none", "cat"]), "d": rw.choice(["dt", "bool", "int_dup"])}
    return {"seed": rw.getrandbits(31), "rows": rows, "cols": cols, "index": rw.choice(["int_sorted", "range", "int_sorted", "dt_sorted", "float_sorted"])}


spec_force = {}


def generate(run_seed, tier):
    rw = R.stream(run_seed, "workload")
    rf = R.stream(run_seed, "fs")
    rs = R.stream(run_seed, "sched")
    table = _table(rw)
    if rw.random() < 0.5:
        table["index_name"] = "idx"
    files = rw.choice([1, 2, 3, 4, 5, 6])
    write = {"via": rw.choice(["to_parquet", "to_parquet", "direct"]), "write_index": rw.random() < 0.85,
             "write_metadata_file": rw.choice([None, True, False]), "order": rw.choice(["sorted", "reversed", "shuffled", "overlap"]),
             "world": S.World.draw(rs).to_json()}
    if write["via"] == "direct":
        # files written by pyarrow itself: keep the index named (an unnamed pandas index becomes the foreign
        # column __index_level_0__, whose treatment by the two readers is outside the round-trip statement)
        table["index_name"] = "idx"
    nullable = [c for c, k in table["cols"].items() if k in ("float_nan", "str_none")]
    reads = []
    for _ in range(rw.randint(2, 4 if tier == "quick" else 6)):
        reader = rw.choice(["fsspec", "arrow", "arrow"])
        rd = {"reader": reader, "calculate_divisions": rw.random() < 0.5, "obs": rw.choice(["result", "result", "len"])}
        if rw.random() < 0.6:
            k = rw.randint(1, 3)
            rd["columns"] = rw.sample(sorted(table["cols"]), k)
        if rw.random() < 0.7:
            rd["pred"] = _draw_pred(rw, table, nullable, reader)
        if rw.random() < 0.3 and files >= 2:
            rd["partitions"] = sorted(rw.sample(range(files), rw.randint(1, files - 1)))
        if rd["obs"] == "head":
            rd["n"] = rw.choice([1, 3, 5])
        if reader == "arrow" and rw.random() < 0.35:
            # user-supplied filters= (applied row-wise by the arrow reader) combined with whatever gets pushed down;
            # only on columns without nulls (null semantics of reader-side filters: KF-C18-ne-null)
            cands = [c for c, k in table["cols"].items() if k in ("int_dup", "int_uniq", "float")]
            if cands:
                c = rw.choice(cands)
                v = rw.randint(0, 8) if table["cols"][c] != "float" else rw.randint(-4, 16) / 4.0
                rd["filters"] = [[c, rw.choice([">", ">=", "<", "<=", "==", "!="]), v]]
                rd.pop("partitions", None)  # partition numbers of a filtered read refer to the files that survive the filter
        reads.append(rd)
    if any(r["reader"] == "arrow" for r in reads) and not spec_force.get("arrow_with_metadata"):
        # known finding KF-C18-arrow-metadata-file: the arrow reader fails (KeyError 'all_files') on datasets with a _metadata file
        write["write_metadata_file"] = False
    spec = {"property": PROPERTY, "table": table, "files": files, "write": write, "reads": reads,
            "fs": {"seed": rf.getrandbits(30), "resolution": rf.choice([1, 1, 60, 3600]), "skew_at": rf.choice([None, None, 3, 7]), "skew_by": rf.choice([0, 5, 100]),
                   "permute": rf.random() < 0.8},
            "cache_cap": rf.choice([1, 2, 10]),
            "overwrite_guard": rw.choice([None, "same", "slash", "noslash_url", "subpath_file"]),
            "rewrite": rw.random() < 0.5,
            "write_fault": ({"at": rf.randint(0, files), "kind": rf.choice(["enospc", "torn"])} if rf.random() < 0.35 else None),
            "read_fault": ({"at": rf.randint(0, 8)} if rf.random() < 0.2 else None)}
    return spec


def _draw_pred(rw, table, nullable, reader, depth=0):
    cols = table["cols"]
    if depth < 2 and rw.random() < 0.3:
        return [rw.choice(["and", "or"]), _draw_pred(rw, table, nullable, reader, depth + 1), _draw_pred(rw, table, nullable, reader, depth + 1)]
    c = rw.choice(sorted(cols))
    k = cols[c]
    ops = ["gt", "ge", "lt", "le", "eq", "ne"]
    if c in nullable:
        # known finding KF-C18-ne-null: a pushed-down '!=' drops the rows whose value is null (arrow filesystem reader)
        ops = ["gt", "ge", "lt", "le", "eq"]
    if k in ("int_dup", "int_uniq"):
        return [rw.choice(ops), c, rw.randint(0, 8)]
    if k in ("float", "float_nan"):
        return [rw.choice(ops), c, rw.randint(-4, 16) / 4.0]
    if k in ("str", "str_none", "cat"):
        return [rw.choice(["eq", "ne"] if c not in nullable else ["eq"]), c, rw.choice(W._WORDS[:6])]
    if k == "dt":
        return [rw.choice(ops), c, {"ts": "2020-01-%02d" % rw.randint(1, 28)}]
    if k == "bool":
        return ["eq", c, rw.random() < 0.5]
    return ["notna", c]


# --------------------------------------------------------------------------


def _v(oracle, sig, detail, **kw):
    d = {"verdict": "violation", "oracle": oracle, "signature": sig, "detail": detail}
    d.update(kw)
    return d


def _write_direct(pdf, files, order, rng, write_index, idx_name):
    """pyarrow writes file by file; per-file index ranges unsorted / overlapping / descending."""
    import pyarrow as pa
    import pyarrow.parquet as pq

    fs = simfs.SimFS()
    n = len(pdf)
    bounds = [(n * i) // files for i in range(files + 1)]
    chunks = [pdf.iloc[bounds[i]: bounds[i + 1]] for i in range(files)]
    if order == "overlap" and files >= 2:
        # interleave rows so that file ranges overlap
        chunks = [pdf.iloc[i::files] for i in range(files)]
    ids = list(range(files))
    if order == "reversed":
        ids = ids[::-1]
    elif order == "shuffled":
        rng.shuffle(ids)
    fs.makedirs("/bucket/ds", exist_ok=True)
    for name_i, chunk_i in enumerate(ids):
        tbl = pa.Table.from_pandas(chunks[chunk_i], preserve_index=write_index)
        with fs.open("/bucket/ds/part.%d.parquet" % name_i, "wb") as f:
            pq.write_table(tbl, f)


def _open_reader(rd, kind):
    import dask_expr as dx

    kw = {"calculate_divisions": rd.get("calculate_divisions", False)}
    if rd.get("filters") and not rd.get("_ignore_filters"):
        kw["filters"] = [tuple(f) for f in rd["filters"]]
    if kind == "arrow":
        return dx.read_parquet("/bucket/ds", filesystem=simfs.arrow_fs(), **kw)
    return dx.read_parquet(URL, **kw)


def _apply(coll, rd, with_partitions=True):
    x = coll
    if with_partitions and rd.get("partitions"):
        x = x.partitions[rd["partitions"]]
    if rd.get("pred"):
        x = x[W.build_pred(x, rd["pred"])]
    if rd.get("columns"):
        x = x[list(rd["columns"])]
    return x


def execute(spec):
    ses = Session()
    simfs.register()
    fsc = spec["fs"]
    simfs.SimFS.reset(seed=fsc["seed"], resolution=fsc["resolution"], skew_at=fsc["skew_at"], skew_by=fsc["skew_by"], permute=fsc["permute"])
    caches.set_capacities(spec.get("cache_cap"))
    try:
        return _execute(spec, ses)
    finally:
        ses.close()


def _execute(spec, ses):
    import dask_expr as dx

    counters = {"reads": 0, "compared": 0, "indeterminate": 0, "roundtrips": 0, "division_checks": 0, "guard_checks": 0, "rewrites": 0,
                "fused_reads": 0, "files": spec["files"]}
    faults = {}
    refw = reference_world()
    rng = R.stream(spec.get("run_seed", 0), "c18exec")
    tspec = dict(spec["table"])
    pdf = W.make_table(tspec)
    w = spec["write"]
    write_index = w["write_index"]
    # ---- write
    try:
        if w["via"] == "direct":
            _write_direct(pdf, spec["files"], w["order"], rng, write_index, tspec.get("index_name"))
        else:
            src = dx.from_pandas(pdf, npartitions=spec["files"])
            kw = {"write_index": write_index}
            if w.get("write_metadata_file") is not None:
                kw["write_metadata_file"] = w["write_metadata_file"]
            with ses.scheduler(S.World.from_json(w["world"]), monitor=False, admission_check=False) as sch:
                src.to_parquet(URL, compute_kwargs={"scheduler": sch.get}, **kw)
    except Exception as e:
        if classify(e) == "refusal":
            return _done({"verdict": "indeterminate", "detail": exc_detail(e)}, ses, counters, spec, faults)
        return _done(_v("write_failed", exc_signature(e), exc_detail(e)), ses, counters, spec, faults)
    fs = simfs.SimFS()
    nfiles = len([p for p in fs.find("/bucket/ds") if p.endswith(".parquet")])
    written = pdf if write_index else pdf.reset_index(drop=True)
    labels = write_index
    exp_obs = observe(written, labels=labels, order=False, kinds=False)
    nontrivial = False
    # ---- reads
    for ri, rd in enumerate(spec["reads"]):
        counters["reads"] += 1
        kind = rd["reader"]
        try:
            r_full = _open_reader(dict(rd, _ignore_filters=True), kind)  # the dataset as it is (round trip, divisions)
            r = _open_reader(rd, kind) if rd.get("filters") else r_full
            _ = r._meta
        except Exception as e:
            if classify(e) == "refusal":
                counters["indeterminate"] += 1
                continue
            return _done(_v("read_failed", "%s:%s" % (kind, exc_signature(e)), exc_detail(e), read=ri), ses, counters, spec, faults)
        # (a) round trip of the full read (unoptimized graph = nothing pushed down but the read itself)
        full = ses.compute_parts(r_full, refw, fuse=False, det={"labels": "defined" if labels else "open", "order": "open"})
        if full.cls != "ok":
            if full.cls == "refusal":
                counters["indeterminate"] += 1
                continue
            return _done(_v("read_failed", "%s:compute:%s" % (kind, exc_signature(full.exc) if full.exc else full.cls), full.detail, read=ri), ses, counters, spec, faults)
        got = dict(full.obs)
        got["kinds"] = None
        exp_cmp = exp_obs
        if kind == "arrow" and not tspec.get("index_name") and not spec.get("compare_index_name_always"):
            # known finding KF-C18-arrow-null-index-name: the arrow reader leaves an unnamed index named '__null_dask_index__'
            got["index_names"] = None
            exp_cmp = dict(exp_obs, index_names=None)
        eq, why = obs_equal(exp_cmp, got)
        counters["roundtrips"] += 1
        if not eq and _roundtrip_comparable(written, w):
            return _done(_v("roundtrip", "%s:%s" % (kind, why.split(" ")[0]), "full read differs from what was written: " + why, read=ri), ses, counters, spec, faults)
        # truthful divisions for the partitions actually read
        if rd.get("calculate_divisions"):
            res = _division_truth(ses, r_full, refw)
            counters["division_checks"] += 1
            if res is not None:
                return _done(_v("divisions_untruthful", "%s:%s" % (kind, res[0]), res[1], read=ri), ses, counters, spec, faults)
        # (b) pushed-down vs in-memory
        if rd.get("partitions"):
            # from_pandas may have produced fewer files than asked for (duplicate index values are never split)
            P_ = [p_ for p_ in rd["partitions"] if p_ < r.npartitions]
            if not P_:
                counters["indeterminate"] += 1
                continue
            rd = dict(rd, partitions=P_)
        try:
            r_nof = r_full
            base = r_nof.partitions[rd["partitions"]] if rd.get("partitions") else r_nof
            base_pdf = _parts_frame(ses, base, refw)
            mem = dx.from_pandas(base_pdf, npartitions=1, sort=False)
            if rd.get("filters"):
                opmap = {">": "gt", ">=": "ge", "<": "lt", "<=": "le", "==": "eq", "!=": "ne"}
                for c_, o_, v_ in rd["filters"]:
                    mem = mem[W.build_pred(mem, [opmap[o_], c_, v_])]
            q = _apply(r, rd)
            m = _apply(mem, rd, with_partitions=False)
        except Exception as e:
            if classify(e) == "refusal":
                counters["indeterminate"] += 1
                continue
            return _done(_v("pushdown_build_failed", "%s:%s" % (kind, exc_signature(e)), exc_detail(e), read=ri), ses, counters, spec, faults)
        det = {"labels": "defined" if labels else "open", "order": "open"}
        try:
            if any(type(e_).__name__ in ("FusedParquetIO", "FusedIO") for e_ in q.optimize().expr.walk()):
                counters["fused_reads"] += 1
        except Exception:
            pass
        if rd["obs"] == "len":
            a = ses.run(lambda sch: len(q), refw, monitor=False, observe_fn=lambda v: observe(v))
            b = ses.run(lambda sch: len(m), refw, monitor=False, observe_fn=lambda v: observe(v))
        elif rd["obs"] == "head":
            # head of an unordered multi-file read is only defined when divisions order the partitions; compare counts otherwise
            n = rd.get("n", 3)
            a = ses.run(lambda sch: q.head(n, npartitions=-1, compute=False).compute(scheduler=sch.get), refw, monitor=False,
                        observe_fn=lambda v: observe(len(v)))
            b = ses.run(lambda sch: m.head(n, npartitions=-1, compute=False).compute(scheduler=sch.get), refw, monitor=False,
                        observe_fn=lambda v: observe(len(v)))
        else:
            a = ses.compute(q, refw, monitor=False, det=det, admission_check=False)
            b = ses.compute(m, refw, monitor=False, det=det, admission_check=False)
        if b.cls != "ok":
            counters["indeterminate"] += 1
            continue
        if a.cls == "refusal":
            counters["indeterminate"] += 1
            continue
        if a.cls != "ok":
            return _done(_v("pushdown_failed", "%s:%s:%s" % (kind, rd["obs"], exc_signature(a.exc) if a.exc else a.cls), a.detail, read=ri), ses, counters, spec, faults)
        ao, bo = dict(a.obs), dict(b.obs)
        ao["kinds"] = bo["kinds"] = None
        eq, why = obs_equal(bo, ao)
        counters["compared"] += 1
        if nfiles >= 2:
            nontrivial = True
        if not eq:
            return _done(_v("pushdown_differs", "%s:%s:%s" % (kind, rd["obs"], why.split(" ")[0]),
                            "pushed-down %s of read %s differs from the in-memory twin: %s" % (rd["obs"], {k: v for k, v in rd.items() if k in ("columns", "pred", "partitions")}, why),
                            read=ri), ses, counters, spec, faults)
    # ---- history independence of the parquet caches: clear them, re-open every read, same divisions / npartitions
    import dask_expr.io.parquet as pqm

    seen = []
    for rd in spec["reads"]:
        try:
            r = _open_reader(rd, rd["reader"])
            seen.append((rd, canon_div(r), r.npartitions))
        except Exception:
            seen.append(None)
    pqm._cached_plan.clear()
    pqm._STATS_CACHE.clear()
    gc.collect()
    for rd_seen in seen:
        if rd_seen is None:
            continue
        rd, div0, np0 = rd_seen
        try:
            r = _open_reader(rd, rd["reader"])
            div1, np1 = canon_div(r), r.npartitions
        except Exception:
            continue
        counters["cache_cleared_reopens"] = counters.get("cache_cleared_reopens", 0) + 1
        if (div0, np0) != (div1, np1):
            return _done(_v("depends_on_read_history", "%s:%s" % (rd["reader"], "divisions" if div0 != div1 else "npartitions"),
                            "read %s reported divisions %s / %d partitions after the other reads of this session, but %s / %d with empty parquet caches"
                            % ({k: v for k, v in rd.items() if k in ("reader", "calculate_divisions")}, div0, np0, div1, np1)), ses, counters, spec, faults)
    # ---- (c) overwrite guard
    og = spec.get("overwrite_guard")
    if og:
        counters["guard_checks"] += 1
        target = {"same": URL, "slash": URL + "/", "noslash_url": "simfs:///bucket/ds", "subpath_file": URL}[og]
        snap = fs.snapshot()
        try:
            # "subpath_file": the query reads one file inside the directory that is being overwritten
            read_from = URL if og != "subpath_file" else sorted(p_ for p_ in fs.find("/bucket/ds") if p_.endswith(".parquet"))[0].replace("/bucket", "simfs://bucket", 1)
            r = dx.read_parquet(read_from)
            q = r[r[sorted(spec["table"]["cols"])[0]].notnull()]
            with ses.scheduler(refw, monitor=False, admission_check=False) as sch:
                q.to_parquet(target, overwrite=True, compute_kwargs={"scheduler": sch.get})
            refused = False
        except ValueError:
            refused = True
        except Exception as e:
            refused = False
            if fs.snapshot() == snap:
                refused = None  # failed without touching anything: not the guard, but harmless
        after = fs.snapshot()
        if refused is False or after != snap:
            return _done(_v("overwrite_not_refused", og + (":destroyed" if after != snap else ":kept"),
                            "to_parquet(%r, overwrite=True) from a query reading %r was not refused; store %s" % (target, URL, "changed" if after != snap else "unchanged")),
                         ses, counters, spec, faults)
    # ---- (e) write fault, then (d) rewrite
    pdf2 = W.make_table(dict(tspec, seed=tspec["seed"] + 1))
    wf = spec.get("write_fault")
    if wf:
        simfs.SimFS.writes = 0
        simfs.SimFS.fail_write_at = wf["at"]
        simfs.SimFS.fail_write_kind = wf["kind"]
        raised = None
        try:
            with ses.scheduler(refw, monitor=False, admission_check=False) as sch:
                dx.from_pandas(pdf2, npartitions=spec["files"]).to_parquet(URL, overwrite=True, write_index=write_index, compute_kwargs={"scheduler": sch.get})
            raised = False
        except Exception:
            raised = True
        fired = list(simfs.SimFS.faults_fired)
        simfs.SimFS.fail_write_at = None
        for f in fired:
            faults["write_" + f] = faults.get("write_" + f, 0) + 1
        if fired and not raised:
            return _done(_v("write_fault_swallowed", wf["kind"], "to_parquet returned normally although writing a file failed (%s)" % fired[0]), ses, counters, spec, faults)
    if spec.get("rewrite") or wf:
        counters["rewrites"] += 1
        try:
            with ses.scheduler(refw, monitor=False, admission_check=False) as sch:
                dx.from_pandas(pdf2, npartitions=max(1, spec["files"] - 1)).to_parquet(URL, overwrite=True, write_index=write_index, compute_kwargs={"scheduler": sch.get})
        except Exception as e:
            return _done(_v("rewrite_failed", exc_signature(e), exc_detail(e)), ses, counters, spec, faults)
        written2 = pdf2 if write_index else pdf2.reset_index(drop=True)
        exp2 = observe(written2, labels=labels, order=False, kinds=False)
        for kind in ("fsspec", "arrow"):
            try:
                r2 = _open_reader({"calculate_divisions": bool(spec["reads"] and spec["reads"][0].get("calculate_divisions"))}, kind)
            except Exception as e:
                if classify(e) == "refusal":
                    continue
                return _done(_v("read_after_rewrite_failed", "%s:%s" % (kind, exc_signature(e)), exc_detail(e)), ses, counters, spec, faults)
            out = ses.compute(r2, refw, monitor=False, det={"labels": "defined" if labels else "open", "order": "open"}, admission_check=False)
            if out.cls == "ok":
                go = dict(out.obs)
                go["kinds"] = None
                exp2c = exp2
                if kind == "arrow" and not tspec.get("index_name") and not spec.get("compare_index_name_always"):
                    go["index_names"] = None
                    exp2c = dict(exp2, index_names=None)
                eq, why = obs_equal(exp2c, go)
                if not eq:
                    return _done(_v("stale_after_rewrite", "%s:%s" % (kind, why.split(" ")[0]),
                                    "a new read_parquet after the dataset was rewritten does not show the new contents: " + why), ses, counters, spec, faults)
                ln = ses.run(lambda sch: len(r2), refw, monitor=False, observe_fn=lambda v: v)
                if ln.cls == "ok" and ln.obs != len(pdf2):
                    return _done(_v("stale_after_rewrite", "%s:len" % kind, "len() after rewrite %s, data has %d rows" % (ln.obs, len(pdf2))), ses, counters, spec, faults)
            elif out.cls != "refusal":
                return _done(_v("read_after_rewrite_failed", "%s:%s" % (kind, exc_signature(out.exc) if out.exc else out.cls), out.detail), ses, counters, spec, faults)
    # ---- read fault: must surface, never fewer rows
    rfault = spec.get("read_fault")
    if rfault:
        try:
            r3 = dx.read_parquet(URL)
            simfs.SimFS.reads = 0
            simfs.SimFS.fail_read_at = rfault["at"]
            out = ses.compute(r3, refw, monitor=False, det={"labels": "open", "order": "open"}, admission_check=False)
            fired = [f for f in simfs.SimFS.faults_fired if f == "read_eio"]
            simfs.SimFS.fail_read_at = None
            if fired:
                faults["read_eio"] = faults.get("read_eio", 0) + 1
                exp_n = len(pdf2) if (spec.get("rewrite") or wf) else len(pdf)
                if out.cls == "ok" and out.obs["nrows"] != exp_n:
                    return _done(_v("read_fault_swallowed", "rows", "a read error surfaced as %d rows instead of %d" % (out.obs["nrows"], exp_n)), ses, counters, spec, faults)
        except Exception:
            simfs.SimFS.fail_read_at = None
    return _done({"verdict": "ok", "nontrivial": nontrivial}, ses, counters, spec, faults)


def canon_div(r):
    try:
        return [_canon_scalar(x) for x in r.divisions]
    except Exception as e:
        return "error:" + type(e).__name__


def _roundtrip_comparable(written, w):
    return True


def _parts_frame(ses, coll, world):
    out = ses.compute_parts(coll, world, fuse=False, det={})
    if out.cls != "ok":
        raise out.exc if out.exc is not None else RuntimeError(out.detail)
    # recompute as a real frame (observe() gave us only the canonical form)
    with ses.scheduler(world, monitor=False, admission_check=False) as sch:
        opt = coll.optimize(fuse=False)
        parts = sch.get(dict(opt.__dask_graph__()), opt.__dask_keys__())
    return pd.concat(parts) if len(parts) > 1 else parts[0]


def _division_truth(ses, r, world):
    if not r.known_divisions:
        return None
    divs = list(r.divisions)
    with ses.scheduler(world, monitor=False, admission_check=False) as sch:
        opt = r.optimize(fuse=False)
        parts = sch.get(dict(opt.__dask_graph__()), opt.__dask_keys__())
    if len(parts) != len(divs) - 1:
        return ("count", "%d partitions but %d divisions" % (len(parts), len(divs)))
    try:
        if list(divs) != sorted(divs):
            return ("unsorted", "divisions %s are not sorted" % (divs,))
    except TypeError:
        return None
    for i, p in enumerate(parts):
        if len(p) == 0:
            continue
        lo, hi = p.index.min(), p.index.max()
        last = i == len(parts) - 1
        try:
            # dask's convention for file statistics: the next partition may start at the previous maximum (duplicates at a border)
            ok = lo >= divs[i] and hi <= divs[i + 1]
        except TypeError:
            continue
        if not ok:
            return ("bounds", "partition %d holds [%s, %s] but divisions say [%s, %s%s" % (i, lo, hi, divs[i], divs[i + 1], "]" if last else ")"))
    return None


def _done(res, ses, counters, spec, faults):
    res.setdefault("nontrivial", res["verdict"] == "violation")
    counters.update(ses.totals)
    counters["fs_writes"] = simfs.SimFS.writes
    counters["fs_reads"] = simfs.SimFS.reads
    res["counters"] = counters
    res["faults"] = faults
    res["probes"] = {"fused_multi_file_read": counters.get("fused_reads", 0), "clock_skew": 1 if spec["fs"].get("skew_at") else 0,
                     "coarse_clock": 1 if spec["fs"].get("resolution", 1) > 1 else 0}
    res["interleavings"] = sorted(ses.order_digests)
    res["policies"] = ses.policies
    res["case_digest"] = R.digest({k: v for k, v in spec.items() if k not in ("hash_seed", "run_seed")})
    return res


def shrink_candidates(spec):
    reads = spec["reads"]
    if len(reads) > 1:
        for r in reads:
            yield dict(spec, reads=[r])
    for k in ("overwrite_guard", "write_fault", "read_fault"):
        if spec.get(k):
            yield dict(spec, **{k: None})
    if spec.get("rewrite"):
        yield dict(spec, rewrite=False)
    for i, r in enumerate(reads):
        for k in ("columns", "pred", "partitions"):
            if r.get(k):
                r2 = {kk: v for kk, v in r.items() if kk != k}
                yield dict(spec, reads=reads[:i] + [r2] + reads[i + 1:])
        if r.get("calculate_divisions"):
            yield dict(spec, reads=reads[:i] + [dict(r, calculate_divisions=False)] + reads[i + 1:])
        if r.get("pred") and r["pred"][0] in ("and", "or"):
            for sub in r["pred"][1:]:
                yield dict(spec, reads=reads[:i] + [dict(r, pred=sub)] + reads[i + 1:])
    if spec["files"] > 1:
        yield dict(spec, files=spec["files"] - 1)
    t = spec["table"]
    if t["rows"] > 8:
        yield dict(spec, table=dict(t, rows=max(8, t["rows"] // 2)))
    fsc = spec["fs"]
    for k, v in (("permute", False), ("resolution", 1), ("skew_at", None)):
        if fsc.get(k) != v:
            yield dict(spec, fs=dict(fsc, **{k: v}))
    if spec.get("cache_cap") != 10:
        yield dict(spec, cache_cap=10)
    w = spec["write"]
    if w["via"] == "direct" and w["order"] != "sorted":
        yield dict(spec, write=dict(w, order="sorted"))

"""C15 — planner caches are transparent: results are independent of session history.

A history machine over the members of one generated recipe (queries that share sources/columns and differ
in cache-key components: npartitions, ascending, upsample, partition_size, sort, chunksize).  Steps: observe
(result / optimized plan name / divisions / npartitions / len), optimize (kept or discarded), drop, gc,
compute_with_fault (an injected task error in the main graph or in a nested planner compute, before or
after the task body).  Cache capacities are 1..3 in most sessions.
Oracle: every observation equals the observation of the same query alone in a pristine process; a compute
with a fired fault must raise.
"""
from __future__ import annotations

import gc

from sim import caches, pristine
from sim import rng as R
from sim import sched as S
from sim import workload as W
from sim.world import Session, classify, exc_signature, reference_world

PROPERTY = "C15"
SESSIONS = {"quick": 120, "thorough": 100}
BUDGET_S = {"quick": 110, "thorough": 1500}
CAP_S = {"quick": 240, "thorough": 480}
KINDS = ("result", "parts", "parts", "optimized_name", "divisions", "npartitions", "len")
RULE = ("one session = a pool of 8-20 related queries (one generated recipe, biased to sort/set_index/repartition-by-size/merge/groupby "
        "variants) x a drawn history of 8-30 steps (observe / optimize+keep|discard / drop / gc / compute_with_fault) under cache "
        "capacities 1..3 or 10; every observation is compared with the same query run alone in a pristine process; distinct = distinct "
        "digest of (recipe, steps, capacity); non-trivial = at least 3 observations were compared after at least one state-changing step")
ASSUMPTIONS = ["pristine process = fresh fork of a template that imported dask_expr and built nothing (same PYTHONHASHSEED)",
               "injected faults are task errors raised by the simulated scheduler before/after a task body"]


def generate(run_seed, tier):
    rw = R.stream(run_seed, "workload")
    rh = R.stream(run_seed, "history")
    ses = Session()
    try:
        fams = ["set_index", "sort_values", "repartition", "merge", "groupby", "twin", "twin", "filter", "project", "assign",
                "reduce", "dedup", "value_counts", "shuffle", "headtail", "cum", "concat", "reset_index"]
        rw.shuffle(fams)
        fams = fams[: rw.randint(8, len(fams))] + ["set_index", "sort_values", "repartition", "twin"]
        refw = reference_world()

        def ref_compute(coll):
            out = ses.compute(coll, refw, monitor=False, admission_check=False)
            if out.cls != "ok":
                raise out.exc

        g = W.Generator(rw, ref_compute, families=fams, knob_space=W.knob_space_default(), max_ops=16 if tier == "quick" else 24,
                        min_ops=8, pool_knobs=True, knob_prob=0.7, max_rows=rw.choice([48, 48, 160]))
        g.allow_partition_size = True
        recipe = g.generate(n_sources=rw.choice([1, 2]))
        if recipe is None:
            return None
        ids = [op["id"] for op in recipe["ops"] if W.op_srcs(op)]
        if len(ids) < 3:
            return None
        recipe["targets"] = ids
        n_steps = rh.randint(8, 20 if tier == "quick" else 36)
        steps = []
        n_obs = 0
        max_obs = 10 if tier == "quick" else 16
        for _ in range(n_steps):
            r = rh.choice(ids)
            x = rh.random()
            if x < 0.40 and n_obs < max_obs:
                steps.append({"do": "observe", "r": r, "kind": rh.choice(KINDS), "fuse": rh.random() < 0.7})
                n_obs += 1
            elif x < 0.60:
                steps.append({"do": "optimize", "r": r, "fuse": rh.random() < 0.6, "keep": rh.random() < 0.5})
            elif x < 0.70:
                steps.append({"do": "drop", "r": r})
            elif x < 0.80:
                steps.append({"do": "gc"})
            elif x < 0.92:
                steps.append({"do": "compute_fault", "r": r, "fault": {"kind": "task_error", "graph": rh.choice([0, 0, 1, 2]),
                                                                       "ordinal": rh.randint(0, 25), "when": rh.choice(["before", "after"])}})
            else:
                steps.append({"do": "compute", "r": r})
        # twin pairs: two members that differ in exactly one field of one op (same kind, same source). Plan one, then
        # observe the other: a cache whose key misses that field hands the first one's value to the second
        by_src = {}
        for op in recipe["ops"]:
            srcs = W.op_srcs(op)
            if len(srcs) == 1 and op["id"] in ids:
                by_src.setdefault((op["op"], srcs[0]), []).append(op)
        pairs = []
        for group in by_src.values():
            for i_ in range(len(group)):
                for j_ in range(i_ + 1, len(group)):
                    a_, b_ = group[i_], group[j_]
                    diff = [k for k in set(a_) | set(b_) if k not in ("id", "knob_names", "src_nparts") and a_.get(k) != b_.get(k)]
                    if len(diff) == 1:
                        pairs.append((a_["id"], b_["id"]))
        rh.shuffle(pairs)
        for a_, b_ in pairs[:3]:
            first, second = (a_, b_) if rh.random() < 0.5 else (b_, a_)
            steps.append({"do": rh.choice(["optimize", "compute"]), "r": first, "fuse": True, "keep": True})
            steps.append({"do": "observe", "r": second, "kind": rh.choice(["parts", "parts", "divisions", "optimized_name", "result"]), "fuse": True})
        # always end with observations so that earlier steps matter
        for _ in range(3):
            steps.append({"do": "observe", "r": rh.choice(ids), "kind": rh.choice(KINDS), "fuse": True})
        return {"property": PROPERTY, "recipe": recipe, "steps": steps, "cache_cap": rh.choice([1, 1, 2, 3, 10]),
                "gc_every_step": rh.random() < 0.2}
    finally:
        ses.close()


def execute(spec):
    ses = Session()
    try:
        return _execute(spec, ses)
    finally:
        ses.close()


def _get(live, recipe, r):
    if r not in live:
        pool = W.build(recipe, use_knobs=True, only=[r])
        for k, v in pool.items():
            live.setdefault(k, v)
    return live[r]


def _observe_here(coll, kind, det, ses, fuse):
    want = {"result": ("result",), "parts": ("parts",), "optimized_name": ("optimized_name",), "divisions": ("divisions",), "npartitions": ("npartitions",),
            "len": ("len",)}[kind]
    d = pristine.describe(coll, det, ses, fuse=fuse, want=want)
    return d.get(want[0])


def _execute(spec, ses):
    caches.set_capacities(spec.get("cache_cap"))
    recipe = spec["recipe"]
    det = recipe.get("det", {})
    counters = {"steps": 0, "observations": 0, "compared": 0, "indeterminate": 0, "faults_not_reached": 0, "drops": 0, "gcs": 0,
                "optimizes": 0, "evictions": 0}
    faults = {}
    live = {}
    kept = []
    memo = {}
    changed = False
    refw = reference_world()
    import dask_expr._shuffle as sh

    for si, st in enumerate(spec["steps"]):
        counters["steps"] += 1
        do = st["do"]
        before_lru = len(sh.divisions_lru)
        try:
            if do == "gc":
                gc.collect()
                counters["gcs"] += 1
            elif do == "drop":
                live.pop(st["r"], None)
                counters["drops"] += 1
                changed = True
            elif do == "optimize":
                c = _get(live, recipe, st["r"])
                counters["optimizes"] += 1
                try:
                    o = c.optimize(fuse=st["fuse"])
                    if st["keep"]:
                        kept.append(o)
                except Exception:
                    pass
                changed = True
            elif do == "compute":
                c = _get(live, recipe, st["r"])
                ses.compute(c, refw, monitor=False, admission_check=False)
                changed = True
            elif do == "compute_fault":
                c = _get(live, recipe, st["r"])
                world = S.World(seed=si, policy="fifo", workers=1, faults=[st["fault"]])
                out = ses.compute(c, world, monitor=False, admission_check=False)
                fired = out.sched.faults_fired if out.sched is not None else []
                changed = True
                if fired:
                    faults["task_error_" + st["fault"]["when"]] = faults.get("task_error_" + st["fault"]["when"], 0) + 1
                    if st["fault"]["graph"] == 0 and out.sched.graphs > 1:
                        faults["in_nested_planner_compute"] = faults.get("in_nested_planner_compute", 0) + 1
                    if out.cls == "ok":
                        return _done({"verdict": "violation", "oracle": "fault_swallowed", "signature": st["fault"]["when"],
                                      "detail": "compute returned a result although the injected task error fired at %s" % fired[0].get("key"),
                                      "step": si}, ses, counters, spec, faults)
                else:
                    counters["faults_not_reached"] += 1
            elif do == "observe":
                r, kind = st["r"], st["kind"]
                c = _get(live, recipe, r)
                d = det.get(str(r), {})
                here = _observe_here(c, kind, d, ses, st.get("fuse", True))
                counters["observations"] += 1
                key = (r, kind, st.get("fuse", True))
                if key not in memo:
                    # one pristine process per (member, fuse): it observes every kind this session will ask about that member
                    wants = sorted({s_["kind"] for s_ in spec["steps"] if s_.get("do") == "observe" and s_["r"] == r and s_.get("fuse", True) == st.get("fuse", True)})
                    sub = W.prune(recipe, [r])
                    resp = pristine.call_eval(spec["hash_seed"], {"kind": "recipe", "recipe": sub, "targets": [r], "use_knobs": True,
                                                                  "fuse": st.get("fuse", True), "want": wants})
                    for k_ in wants:
                        if "descs" not in resp:
                            memo[(r, k_, st.get("fuse", True))] = {"error": "refusal", "sig": "build"}
                        else:
                            memo[(r, k_, st.get("fuse", True))] = resp["descs"][str(r)].get(k_)
                there = memo[key]
                if isinstance(there, dict) and "error" in there:
                    counters["indeterminate"] += 1
                    continue
                if isinstance(here, dict) and "error" in here:
                    if here["error"] == "refusal":
                        counters["indeterminate"] += 1
                        continue
                    return _done({"verdict": "violation", "oracle": "fails_after_history", "signature": "%s:%s" % (kind, here["sig"]),
                                  "detail": "%s of member %d failed here (%s) but works alone in a fresh process" % (kind, r, here.get("msg")),
                                  "step": si}, ses, counters, spec, faults)
                counters["compared"] += 1
                df = pristine.diff_desc({kind: here}, {kind: there}, fields=(kind,))
                if df is not None:
                    return _done({"verdict": "violation", "oracle": "differs_from_fresh_process", "signature": "%s:%s" % (kind, _opkind(recipe, r)),
                                  "detail": "member %d %s" % (r, df[1]), "step": si}, ses, counters, spec, faults)
        finally:
            if len(sh.divisions_lru) < before_lru or (before_lru >= sh.divisions_lru.maxsize > 0 and do != "gc"):
                counters["evictions"] += 1
            if spec.get("gc_every_step"):
                gc.collect()
    nontrivial = counters["compared"] >= 3 and changed
    return _done({"verdict": "ok", "nontrivial": nontrivial}, ses, counters, spec, faults)


def _opkind(recipe, r):
    for op in recipe["ops"]:
        if op["id"] == r:
            return op["op"]
    return "?"


def _done(res, ses, counters, spec, faults):
    res.setdefault("nontrivial", res["verdict"] == "violation")
    counters.update(ses.totals)
    res["counters"] = counters
    res["interleavings"] = sorted(ses.order_digests)
    res["policies"] = ses.policies
    res["faults"] = faults
    sizes = caches.cache_sizes()
    res["probes"] = {"lru_at_capacity": 1 if sizes["divisions_lru"] >= (spec.get("cache_cap") or 10) else 0,
                     "small_capacity": 1 if (spec.get("cache_cap") or 10) < 10 else 0,
                     "nested_compute_failed": faults.get("in_nested_planner_compute", 0)}
    res["case_digest"] = R.digest({k: v for k, v in spec.items() if k not in ("hash_seed", "run_seed")})
    return res


def shrink_candidates(spec):
    steps = spec["steps"]
    # drop steps (never the failing observation itself: the executor stops at the first violation, so trailing steps are free)
    for i in range(len(steps)):
        yield dict(spec, steps=steps[:i] + steps[i + 1:])
    if spec.get("cache_cap") != 10:
        yield dict(spec, cache_cap=10)
    if spec.get("gc_every_step"):
        yield dict(spec, gc_every_step=False)
    used = {s["r"] for s in steps if "r" in s}
    recipe = spec["recipe"]
    if set(recipe["targets"]) - used:
        r2 = W.prune(recipe, sorted(used))
        r2["targets"] = sorted(used)
        yield dict(spec, recipe=r2)
    from sim.minimize import recipe_candidates

    for t in spec["recipe"]["tables"]:
        tb = spec["recipe"]["tables"][t]
        if tb["rows"] > 8:
            import copy

            r2 = copy.deepcopy(spec["recipe"])
            r2["tables"][t]["rows"] = max(8, tb["rows"] // 2)
            yield dict(spec, recipe=r2)

"""C05 — results do not depend on task scheduling; tasks never mutate their inputs.

spec = {property, recipe, fuse, runs: [world...], rerun: [world, world]}
Oracles:
  schedule_divergence     two executions of one target give different observations
  fail_under_schedule     an execution fails where the reference schedule succeeded
  mutation                a task changed one of its arguments / a published result changed
  repeat_divergence       computing the same collection again gives another answer
  graph_rerun_divergence  executing the same graph dict twice gives another answer
  source_mutated          the user's pandas object or the private source copy changed
"""
from __future__ import annotations

import gc

import pandas as pd

from sim import rng as R
from sim import sched as S
from sim import workload as W
from sim.fingerprint import fingerprint, obs_digest, obs_equal, observe
from sim.world import Outcome, Session, compare, reference_world

PROPERTY = "C05"

SESSIONS = {"quick": 120, "thorough": 500}
BUDGET_S = {"quick": 80, "thorough": 1500}
CAP_S = {"quick": 240, "thorough": 480}
RULE = ("one session = one generated recipe (3-8 ops over 1-3 small tables) x E drawn schedules of the simulated cluster "
        "+ 2 repeated computes + 2 executions of one graph dict; distinct = distinct digest of (recipe, schedule configs, fuse); "
        "non-trivial = at least one perturbed execution ran a graph with more than 2 tasks and was compared with the reference")
TIERS = {
    "quick": {"runs": 4, "max_ops": 6},
    "thorough": {"runs": 10, "max_ops": 8},
}


def generate(run_seed, tier):
    cfg = TIERS[tier]
    rw = R.stream(run_seed, "workload")
    rs = R.stream(run_seed, "sched")
    ses = Session()
    try:
        fams = list(W.FAMILIES)
        # swarm: drop a random subset of op families for this session
        rw.shuffle(fams)
        fams = fams[: rw.randint(6, len(fams))]
        if rw.random() < 0.5:
            # wider operator coverage (where/mask, loc, nlargest, accessors, melt, combine_first, ...)
            fams += rw.sample(list(W.EXTENDED_FAMILIES), rw.randint(2, len(W.EXTENDED_FAMILIES)))
        fuse = rw.random() < 0.6
        if rw.random() < 0.5:
            fams += ["rename_series"] * 2
        refw = reference_world()

        def ref_compute(coll):
            out = ses.compute(coll, refw, fuse=fuse, monitor=False, admission_check=False)
            if out.cls != "ok":
                raise out.exc

        g = W.Generator(
            rw,
            ref_compute,
            families=fams,
            knob_space=W.knob_space_default(),
            max_ops=cfg["max_ops"],
            pool_knobs=True,
            knob_prob=0.6,
        )
        recipe = g.generate()
        if recipe is None or not recipe["targets"]:
            return None
        recipe = W.prune(recipe)
        runs = [S.World.draw(rs).to_json() for _ in range(cfg["runs"])]
        # make sure the adversarial consumer-permutation policy is always present
        if not any(r["policy"] == "consumer_perm" for r in runs):
            runs[0]["policy"] = "consumer_perm"
        rerun = [S.World.draw(rs).to_json() for _ in range(2)]
        return {"property": PROPERTY, "recipe": recipe, "fuse": fuse, "runs": runs, "rerun": rerun,
                "gen": {"rejected": g.rejected}}
    finally:
        ses.close()


def _violation(oracle, signature, detail, extra=None):
    d = {"verdict": "violation", "oracle": oracle, "signature": signature, "detail": detail}
    if extra:
        d.update(extra)
    return d


def execute(spec):
    ses = Session()
    try:
        return _execute(spec, ses)
    finally:
        ses.close()


def _source_fps(pool):
    """Fingerprints of the private source copies behind FromPandas expressions."""
    out = {}
    from dask_expr.io.io import FromPandas

    for i, coll in sorted(pool.items()):
        try:
            for e in coll.expr.walk():
                if isinstance(e, FromPandas):
                    out[e._name] = (e, fingerprint(e.operand("frame")._data))
        except Exception:
            continue
    return out


def _execute(spec, ses):
    recipe = spec["recipe"]
    fuse = spec["fuse"]
    counters = {"targets": 0, "executions": 0, "compared": 0, "indeterminate": 0, "shared_keys": 0}
    # user-side frames: capture what is handed to from_pandas
    handed = []
    import dask_expr as dx

    orig_from_pandas = dx.from_pandas

    def spy_from_pandas(data, *a, **k):
        handed.append((data, fingerprint(data)))
        return orig_from_pandas(data, *a, **k)

    dx.from_pandas = spy_from_pandas
    try:
        pool = W.build(recipe, use_knobs=True)
    finally:
        dx.from_pandas = orig_from_pandas
    src_fps = _source_fps(pool)
    det = recipe.get("det", {})
    refw = reference_world()
    nontrivial = False
    for t in recipe["targets"]:
        coll = pool[t]
        d = det.get(str(t), {})
        counters["targets"] += 1
        ref = ses.compute(coll, refw, fuse=fuse, monitor=True, det=d)
        counters["executions"] += 1
        if ref.cls in ("mutation",):
            return _done(_violation("mutation", "ref:" + _mut_sig(ref), ref.detail, {"target": t, "run": -1}), ses, counters, spec)
        if ref.cls != "ok":
            counters["indeterminate"] += 1
            continue
        for ri, wj in enumerate(spec["runs"]):
            world = S.World.from_json(wj)
            got = ses.compute(coll, world, fuse=fuse, monitor=True, det=d)
            counters["executions"] += 1
            if got.sched is not None and got.sched.graph_sizes and max(got.sched.graph_sizes) > 2:
                nontrivial = True
            if got.cls == "mutation":
                return _done(_violation("mutation", _mut_sig(got), got.detail, {"target": t, "run": ri}), ses, counters, spec)
            if got.cls == "ok":
                eq, why = obs_equal(ref.obs, got.obs)
                counters["compared"] += 1
                if not eq:
                    return _done(_violation("schedule_divergence", _kind_of(why), why, {"target": t, "run": ri}), ses, counters, spec)
            else:
                # same program, same knobs, only the schedule differs: any failure counts
                return _done(_violation("fail_under_schedule", got.cls + ":" + _exc_sig(got), got.detail, {"target": t, "run": ri}), ses, counters, spec)
            if world.gc_prob:
                gc.collect()
        # the same collection again (fresh optimize + graph), twice
        for k in range(2):
            got = ses.compute(coll, refw if k == 0 else S.World.from_json(spec["rerun"][0]), fuse=fuse, monitor=True, det=d)
            counters["executions"] += 1
            st, why = compare(ref, got)
            if got.cls == "mutation":
                return _done(_violation("mutation", _mut_sig(got), got.detail, {"target": t, "run": "repeat%d" % k}), ses, counters, spec)
            if st in ("different", "fail") or got.cls == "refusal":
                return _done(_violation("repeat_divergence", _kind_of(why), why or got.detail, {"target": t, "run": "repeat%d" % k}), ses, counters, spec)
        # the same graph dict executed twice (persist / to_delayed users)
        res = _graph_rerun(ses, coll, fuse, d, spec["rerun"])
        counters["executions"] += 2
        if res is not None:
            return _done(_violation(res[0], res[1], res[2], {"target": t, "run": "graph_rerun"}), ses, counters, spec)
    # sources intact?
    for data, fp0 in handed:
        if fingerprint(data) != fp0:
            return _done(_violation("source_mutated", "user_frame", "object handed to from_pandas changed"), ses, counters, spec)
    for name, (e, fp0) in sorted(src_fps.items()):
        if fingerprint(e.operand("frame")._data) != fp0:
            return _done(_violation("source_mutated", "private_copy", "private source copy of %s changed" % name.split("-")[0]), ses, counters, spec)
    # the other direction of the isolation: the user goes on modifying their own frame after handing it over;
    # a collection built earlier must keep computing what it computed before (sources are a private copy)
    if handed and spec.get("user_edits", True):
        refs = {}
        probes_ = {}
        for t in recipe["targets"]:
            d = det.get(str(t), {})
            refs[t] = ses.compute(pool[t], refw, fuse=fuse, monitor=False, det=d)
            # a projection of the target re-instantiates the source node inside the optimizer
            if d.get("kind") == "frame":
                try:
                    c0 = list(pool[t].columns)[0]
                    pr = pool[t][[c0]]
                    probes_[t] = (pr, ses.compute(pr, refw, fuse=fuse, monitor=False, det=d))
                except Exception:
                    pass
        edited = 0
        for data, _ in handed:
            try:
                if isinstance(data, pd.DataFrame):
                    for j in range(data.shape[1]):
                        if pd.api.types.is_numeric_dtype(data.dtypes.iloc[j]) and not pd.api.types.is_bool_dtype(data.dtypes.iloc[j]):
                            data.iloc[:, j] = data.iloc[:, j].to_numpy() * 0 + 977
                            edited += 1
                elif isinstance(data, pd.Series) and pd.api.types.is_numeric_dtype(data.dtype) and not pd.api.types.is_bool_dtype(data.dtype):
                    data.iloc[:] = 977
                    edited += 1
            except Exception:
                pass
        counters["user_edits"] = edited
        if edited:
            gc.collect()  # planner temporaries of earlier computes are gone: sources get re-instantiated
            for t in recipe["targets"]:
                d = det.get(str(t), {})
                for what, coll_, ref_ in [("target", pool[t], refs[t])] + ([("projection", probes_[t][0], probes_[t][1])] if t in probes_ else []):
                    if ref_.cls != "ok":
                        continue
                    got = ses.compute(coll_, refw, fuse=fuse, monitor=False, det=d)
                    counters["executions"] += 1
                    if got.cls == "ok":
                        eq, why = obs_equal(ref_.obs, got.obs)
                        if not eq:
                            return _done(_violation("source_not_private", what, "after the user edited the frame they had passed to from_pandas, the "
                                                    "%s of an existing collection changed: %s" % (what, why), {"target": t}), ses, counters, spec)
    return _done({"verdict": "ok", "nontrivial": nontrivial}, ses, counters, spec)


def _graph_rerun(ses, coll, fuse, d, worlds):
    from dask_expr._collection import Scalar

    try:
        opt = coll.optimize(fuse=fuse)
        dsk = dict(opt.__dask_graph__())
        keys = opt.__dask_keys__()
    except Exception:
        return None
    outs = []
    for wj in worlds[:2]:
        world = S.World.from_json(wj)

        def thunk(sch):
            parts = sch.get(dsk, keys)
            return parts

        def obs_fn(parts):
            if isinstance(parts, list) and parts and isinstance(parts[0], (pd.DataFrame, pd.Series, pd.Index)):
                if isinstance(parts[0], pd.Index):
                    val = parts[0].append(list(parts[1:])) if len(parts) > 1 else parts[0]
                else:
                    val = pd.concat(parts) if len(parts) > 1 else parts[0]
            elif isinstance(parts, list) and len(parts) == 1:
                val = parts[0]
            else:
                val = parts
            return observe(val, labels=d.get("labels", "defined") == "defined", order=d.get("order", "open") == "defined")

        out = ses.run(thunk, world, monitor=True, observe_fn=obs_fn)
        outs.append(out)
    a, b = outs
    for o in outs:
        if o.cls == "mutation":
            return ("mutation", _mut_sig(o), o.detail)
    if a.cls == "ok" and b.cls == "ok":
        eq, why = obs_equal(a.obs, b.obs)
        if not eq:
            return ("graph_rerun_divergence", _kind_of(why), why)
    elif a.cls == "ok" and b.cls != "ok":
        return ("graph_rerun_divergence", "second_run_failed:" + _exc_sig(b), b.detail)
    return None


def _mut_sig(out: Outcome):
    e = out.exc
    if isinstance(e, S.MutationDetected):
        stem = e.key.split("-")[0].strip("('\"")
        return "%s:%s" % (stem, e.when.split(" ")[0])
    return "mutation"


def _exc_sig(out: Outcome):
    from sim.world import exc_signature

    return exc_signature(out.exc) if out.exc is not None else out.cls


def _kind_of(why):
    return (why or "").split(" ")[0] or "diff"


def _done(res, ses, counters, spec):
    res.setdefault("nontrivial", res["verdict"] != "ok" or False)
    counters.update(ses.totals)
    res["counters"] = counters
    res["interleavings"] = sorted(ses.order_digests)
    res["policies"] = ses.policies
    res["case_digest"] = R.digest({"recipe": spec["recipe"], "runs": spec["runs"], "fuse": spec["fuse"]})
    return res


def shrink_candidates(spec):
    """Simpler variants of a failing spec (generic recipe shrinking + schedule simplification)."""
    from sim.minimize import recipe_candidates

    for r in recipe_candidates(spec["recipe"]):
        s = dict(spec)
        s["recipe"] = r
        yield s
    if len(spec["runs"]) > 1:
        for i in range(len(spec["runs"])):
            s = dict(spec)
            s["runs"] = spec["runs"][:i] + spec["runs"][i + 1:]
            yield s
    for i, r in enumerate(spec["runs"]):
        for key, val in (("workers", 1), ("transfer", "ref"), ("gc_prob", 0.0), ("policy", "fifo"), ("stall", None)):
            if r.get(key) != val:
                s = dict(spec)
                rr = dict(r)
                rr[key] = val
                s["runs"] = spec["runs"][:i] + [rr] + spec["runs"][i + 1:]
                yield s
    if spec.get("fuse"):
        s = dict(spec)
        s["fuse"] = False
        yield s

"""C19 — optimization terminates, is deterministic and idempotent.

Termination is bounded liveness: wrappers count simplify_once / rewrite / lower_once / fusion-substitute steps
per optimize() and raise beyond 200 x (nodes + 1); "Optimizer does not converge" is a violation too.
Determinism: the plan transcript of optimize(q) (a) twice in a row, (b) after unrelated history + GC,
(c) with gc.collect() forced between every rewrite step vs never, (d) in pristine processes under other
hash seeds.  Idempotence: optimize(optimize(q)) and optimize(fuse=False)->optimize(fuse=True) compute the
same observation as optimize(q).
"""
from __future__ import annotations

import gc

from sim import gcseam, pristine
from sim import rng as R
from sim import workload as W
from sim.fingerprint import obs_equal
from sim.world import Session, classify, exc_detail, exc_signature, reference_world

PROPERTY = "C19"
SESSIONS = {"quick": 160, "thorough": 150}
BUDGET_S = {"quick": 110, "thorough": 1500}
CAP_S = {"quick": 240, "thorough": 480}
RULE = ("one session = one generated recipe (biased to projection-over-assign, projections into sources, drop_duplicates subsets, filters over "
        "shared frames); every target's optimize() is step-counted, repeated, replayed after unrelated history + GC, under GC-every-step, and in "
        "pristine processes under 2 other PYTHONHASHSEEDs; nested optimize() results are compared; distinct = distinct recipe digest; "
        "non-trivial = a plan with >= 3 nodes was optimized and all determinism/idempotence comparisons were evaluated")
ASSUMPTIONS = ["step bound 200 x (nodes created during the call + initial nodes + 1); measured maximum ratio is reported",
               "cross-process transcripts use the uuid shim only for disk-shuffle helper keys (reduced to their prefix)"]


def generate(run_seed, tier):
    rw = R.stream(run_seed, "workload")
    rh = R.stream(run_seed, "history")
    ses = Session()
    gcseam.install()
    try:
        fams = list(W.FAMILIES)
        rw.shuffle(fams)
        fams = [f for f in fams[: rw.randint(8, len(fams))] if f != "cut"]
        fams += ["project", "assign", "filter", "dedup", "project", "assign", "rename", "merge", "merge_filter", "merge_filter"]
        if rw.random() < 0.5:
            # wider operator coverage (where/mask, loc, nlargest, accessors, melt, combine_first, ...)
            fams += rw.sample(list(W.EXTENDED_FAMILIES), rw.randint(2, len(W.EXTENDED_FAMILIES)))
        refw = reference_world()
        suspicious = []

        def ref_compute(coll):
            # the reference compute itself optimizes: a looping rule must not disappear as "invalid op"
            try:
                with gcseam.counting(coll.expr):
                    out = ses.compute(coll, refw, monitor=False, admission_check=False)
            except gcseam.StepBoundExceeded:
                suspicious.append(True)
                raise
            if out.cls != "ok":
                if isinstance(out.exc, gcseam.StepBoundExceeded) or (isinstance(out.exc, RuntimeError) and "does not converge" in str(out.exc)):
                    suspicious.append(True)
                raise out.exc

        g = W.Generator(rw, ref_compute, families=fams, knob_space=W.knob_space_default(), max_ops=7 if tier == "quick" else 9,
                        pool_knobs=True, knob_prob=0.4)
        recipe = g.generate(n_targets=rw.choice([1, 2]))
        if recipe is None or not recipe["targets"]:
            return None
        full = recipe
        recipe = W.prune(recipe)
        others = [op["id"] for op in full["ops"] if op["id"] not in {o["id"] for o in recipe["ops"]}][:5]
        spec = {"property": PROPERTY, "recipe": recipe, "history_recipe": W.prune(full, others) if others else None, "history_ids": others,
                "other_seeds": rh.sample(R.HASH_SEEDS, 3)}
        if suspicious or g.reject_reasons.get("StepBoundExceeded") or g.reject_reasons.get("RuntimeError"):
            # keep the rejected ops as explicit candidates: build-only targets checked by the executor
            spec["retry_rejected"] = True
            spec["gen_seed"] = run_seed
            spec["tier"] = tier
        return spec
    finally:
        ses.close()


def execute(spec):
    ses = Session()
    gcseam.install()
    try:
        return _execute(spec, ses)
    finally:
        ses.close()


def _opt(coll, fuse=True, gc_each_step=False):
    with gcseam.counting(coll.expr, gc_each_step=gc_each_step) as c:
        o = coll.optimize(fuse=fuse)
    return o, c.steps, c.base_nodes + c.created


def _execute(spec, ses):
    recipe = spec["recipe"]
    det = recipe.get("det", {})
    counters = {"optimize_calls": 0, "steps": 0, "max_steps": 0, "nodes": 0, "cross_seed": 0, "compared": 0, "indeterminate": 0}
    refw = reference_world()
    hs = spec["hash_seed"]
    if spec.get("retry_rejected"):
        # a rule looped during generation: regenerate in this pristine process with the step monitor armed and report it
        res = _regenerate_check(spec, ses)
        if res is not None:
            return _done(res, ses, counters, spec)
    pool = W.build(recipe, use_knobs=True)
    nontrivial = False
    for t in recipe["targets"]:
        coll = pool[t]
        d = det.get(str(t), {})
        # --- termination (bounded liveness) + first transcript
        try:
            o1, steps, nodes = _opt(coll)
        except gcseam.StepBoundExceeded as e:
            return _done({"verdict": "violation", "oracle": "step_bound", "signature": _top(coll), "detail": str(e), "target": t}, ses, counters, spec)
        except RuntimeError as e:
            if "does not converge" in str(e):
                return _done({"verdict": "violation", "oracle": "non_convergence", "signature": _top(coll), "detail": str(e)[:300], "target": t}, ses, counters, spec)
            counters["indeterminate"] += 1
            continue
        except Exception:
            counters["indeterminate"] += 1
            continue
        counters["optimize_calls"] += 1
        counters["steps"] += steps
        counters["max_steps"] = max(counters["max_steps"], steps)
        counters["nodes"] += nodes
        if nodes >= 3:
            nontrivial = True
        T1 = pristine.transcript(coll)
        # (a) again, immediately
        T2 = pristine.transcript(coll)
        df = pristine.diff_transcripts(T1, T2)
        if df:
            return _done(_v("nondeterministic_plan", "repeat:" + df[0], "second optimize differs: %s %s" % df, t), ses, counters, spec)
        # (b) after unrelated history and GC
        if spec.get("history_recipe"):
            try:
                hp = W.build(spec["history_recipe"], use_knobs=True)
                for i in spec["history_ids"]:
                    try:
                        hp[i].optimize()
                        ses.compute(hp[i], refw, monitor=False, admission_check=False)
                    except Exception:
                        pass
                del hp
            except Exception:
                pass
        gc.collect()
        T3 = pristine.transcript(coll)
        df = pristine.diff_transcripts(T1, T3)
        if df:
            return _done(_v("nondeterministic_plan", "history:" + df[0], "optimize after unrelated history + GC differs: %s %s" % df, t), ses, counters, spec)
        # (c) GC between every rewrite step
        try:
            o_gc, s_gc, _ = _opt(coll, gc_each_step=True)
            counters["optimize_calls"] += 1
            if o_gc._name != o1._name:
                return _done(_v("nondeterministic_plan", "gc_each_step", "plan %s with GC forced between rewrite steps vs %s without" % (o_gc._name, o1._name), t), ses, counters, spec)
        except gcseam.StepBoundExceeded as e:
            return _done({"verdict": "violation", "oracle": "step_bound", "signature": "gc:" + _top(coll), "detail": str(e), "target": t}, ses, counters, spec)
        except Exception as e:
            return _done(_v("nondeterministic_plan", "gc_each_step_fails:" + exc_signature(e), exc_detail(e), t), ses, counters, spec)
        # (d) pristine processes under other hash seeds (and the same one)
        sub = W.prune(recipe, [t])
        for h in [hs] + [x for x in spec["other_seeds"] if x != hs][:2]:
            resp = pristine.call_eval(h, {"kind": "transcript", "recipe": sub, "targets": [t], "use_knobs": True})
            if "transcripts" not in resp:
                counters["indeterminate"] += 1
                continue
            counters["cross_seed"] += 1
            df = pristine.diff_transcripts(T1, resp["transcripts"][str(t)])
            if df:
                return _done(_v("nondeterministic_plan", ("hashseed:" if h != hs else "process:") + df[0],
                                "plan in a pristine process with PYTHONHASHSEED=%d differs at stage %s: %s" % (h, df[0], df[1]), t), ses, counters, spec)
        # --- idempotence
        ref = ses.compute(coll, refw, fuse=True, monitor=False, det=d, admission_check=False)
        if ref.cls != "ok":
            counters["indeterminate"] += 1
            continue
        for label, mk in (("opt_opt", lambda: coll.optimize().optimize()), ("nofuse_then_fuse", lambda: coll.optimize(fuse=False).optimize(fuse=True)),
                          ("opt_only", lambda: coll.optimize())):
            try:
                with gcseam.counting(coll.expr):
                    oo = mk()
            except gcseam.StepBoundExceeded as e:
                return _done({"verdict": "violation", "oracle": "step_bound", "signature": label + ":" + _top(coll), "detail": str(e), "target": t}, ses, counters, spec)
            except RuntimeError as e:
                if "does not converge" in str(e):
                    return _done({"verdict": "violation", "oracle": "non_convergence", "signature": label + ":" + _top(coll), "detail": str(e)[:300], "target": t}, ses, counters, spec)
                return _done(_v("not_idempotent", label + ":fails:" + exc_signature(e), exc_detail(e), t), ses, counters, spec)
            except Exception as e:
                return _done(_v("not_idempotent", label + ":fails:" + exc_signature(e), exc_detail(e), t), ses, counters, spec)
            counters["optimize_calls"] += 1
            # compute the already optimized collection as it is (graph of the optimized plan)
            got = ses.run(lambda sch, oo=oo: _compute_plan(oo, sch), refw, monitor=False, det=d, admission_check=False)
            if got.cls == "ok":
                eq, why = obs_equal(ref.obs, got.obs)
                counters["compared"] += 1
                if not eq:
                    return _done(_v("not_idempotent", label + ":" + why.split(" ")[0], why, t), ses, counters, spec)
            elif got.cls == "refusal":
                counters["indeterminate"] += 1
            else:
                return _done(_v("not_idempotent", label + ":fails:" + (exc_signature(got.exc) if got.exc else got.cls), got.detail, t), ses, counters, spec)
    return _done({"verdict": "ok", "nontrivial": nontrivial}, ses, counters, spec)


def _compute_plan(oo, sch):
    return oo.compute(scheduler=sch.get)


def _regenerate_check(spec, ses):
    """Replays generation with the step monitor; returns a violation if a rule loops on a buildable query."""
    rw = R.stream(spec["gen_seed"], "workload")
    fams = list(W.FAMILIES)
    rw.shuffle(fams)
    fams = [f for f in fams[: rw.randint(8, len(fams))] if f != "cut"]
    fams += ["project", "assign", "filter", "dedup", "project", "assign", "rename", "merge", "merge_filter", "merge_filter"]
    if rw.random() < 0.5:
        fams += rw.sample(list(W.EXTENDED_FAMILIES), rw.randint(2, len(W.EXTENDED_FAMILIES)))
    refw = reference_world()
    found = []

    def ref_compute(coll):
        try:
            with gcseam.counting(coll.expr):
                coll.optimize()
        except gcseam.StepBoundExceeded as e:
            found.append(("step_bound", _top(coll), str(e)))
            raise
        except RuntimeError as e:
            if "does not converge" in str(e):
                found.append(("non_convergence", _top(coll), str(e)[:300]))
            raise
        out = ses.compute(coll, refw, monitor=False, admission_check=False)
        if out.cls != "ok":
            raise out.exc

    g = W.Generator(rw, ref_compute, families=fams, knob_space=W.knob_space_default(), max_ops=7 if spec.get("tier") == "quick" else 9,
                    pool_knobs=True, knob_prob=0.4)
    g.generate(n_targets=rw.choice([1, 2]))  # same draws as generate(): the recipe must be the same one
    if found:
        o, sig, detail = found[0]
        return {"verdict": "violation", "oracle": o, "signature": sig, "detail": detail}
    return None


def _top(coll):
    try:
        return type(coll.expr).__name__
    except Exception:
        return "?"


def _v(oracle, sig, detail, t):
    return {"verdict": "violation", "oracle": oracle, "signature": sig, "detail": detail, "target": t}


def _done(res, ses, counters, spec):
    res.setdefault("nontrivial", res["verdict"] == "violation")
    counters.update(ses.totals)
    res["counters"] = counters
    res["interleavings"] = sorted(ses.order_digests)
    res["policies"] = ses.policies
    res["probes"] = {"max_step_ratio_permille": int(1000 * gcseam.COUNTERS.max_ratio)}
    res["case_digest"] = R.digest({"recipe": spec["recipe"]})
    return res


def shrink_candidates(spec):
    from sim.minimize import recipe_candidates

    if spec.get("history_recipe"):
        yield dict(spec, history_recipe=None, history_ids=[])
    if spec.get("retry_rejected"):
        return
    for r in recipe_candidates(spec["recipe"]):
        yield dict(spec, recipe=r)

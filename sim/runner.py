"""Batch driver: template servers, session fan-out, timeouts, minimisation, replay,
evidence, VIOLATION / KNOWN-FINDING lines."""
from __future__ import annotations

import concurrent.futures as cf
import json
import os
import re
import shutil
import subprocess
import sys
import tempfile
import time

HERE = os.path.dirname(os.path.dirname(os.path.abspath(__file__)))
sys.path.insert(0, HERE)

from sim import ipc, rng as R  # noqa: E402

PY = "/venv/bin/python"
REAL_STUB = {
    "real": [
        "dask_expr (collection API, Expr.__new__/naming, simplify/tune/lower/fuse, _layer/_task, all task functions)",
        "pandas, numpy, pyarrow (dataset discovery, parquet encode/decode, internal threads)",
        "partd (real files under the session scratch dir)",
        "dask.base compute/persist plumbing, dask.core._execute_task, tokenization, pickle/cloudpickle",
    ],
    "simulated": [
        "scheduler + workers (SimScheduler replaces dask.local/dask.threaded through the scheduler= seam)",
        "inter-worker transfer (by reference or pickle round trip)",
        "task failures, stalls, GC trigger points, hash seed selection, process boundaries (pristine forks)",
        "cache capacities, uuid source, filesystem + file clock under parquet datasets (profiles that use them)",
    ],
}


class Templates:
    def __init__(self, repo=None, hash_seeds=R.HASH_SEEDS):
        self.repo = repo or os.environ.get("VERIF_REPO", "/repo")
        base = os.environ.get("VERIF_TMP") or tempfile.gettempdir()
        self.root = tempfile.mkdtemp(prefix="verif-run-", dir=base)
        self.sockdir = os.path.join(self.root, "sock")
        self.scratch = os.path.join(self.root, "scratch")
        self.logs = os.path.join(self.root, "logs")
        for d in (self.sockdir, self.scratch, self.logs):
            os.makedirs(d)
        self.procs = {}
        self.hash_seeds = tuple(hash_seeds)

    def start(self):
        for h in self.hash_seeds:
            env = dict(os.environ)
            env["PYTHONHASHSEED"] = str(h)
            env["VERIF_REPO"] = self.repo
            env["VERIF_SOCKDIR"] = self.sockdir
            env["VERIF_SCRATCH"] = self.scratch
            env["PYTHONDONTWRITEBYTECODE"] = "1"
            env["OMP_NUM_THREADS"] = "1"
            env["OPENBLAS_NUM_THREADS"] = "1"
            env["ARROW_IO_THREADS"] = "1"
            env.pop("DASK_EXPR_VERIF", None)
            p = subprocess.Popen(
                [PY, os.path.join(HERE, "sim", "template.py"), ipc.sock_path(self.sockdir, h)],
                env=env,
                stdout=subprocess.PIPE,
                stderr=open(os.path.join(self.logs, "template-%d.err" % h), "w"),
                cwd=HERE,
            )
            self.procs[h] = p
        for h, p in self.procs.items():
            line = p.stdout.readline().decode()
            if not line.startswith("READY"):
                err = open(os.path.join(self.logs, "template-%d.err" % h)).read()[-3000:]
                self.stop()
                raise RuntimeError("template %d failed to start: %r\n%s" % (h, line, err))
        os.environ["VERIF_SOCKDIR"] = self.sockdir
        return self

    def stop(self):
        for p in self.procs.values():
            try:
                p.terminate()
            except Exception:
                pass
        for p in self.procs.values():
            try:
                p.wait(timeout=5)
            except Exception:
                try:
                    p.kill()
                except Exception:
                    pass
        shutil.rmtree(self.root, ignore_errors=True)

    def __enter__(self):
        return self.start()

    def __exit__(self, *a):
        self.stop()


def _stack_in_dask_expr(logpath):
    """(kind, inside, where): kind = cpu | wall | none."""
    try:
        txt = open(logpath).read()
    except OSError:
        return "none", False, ""
    i = txt.rfind("CPU-Timeout (")
    kind = "cpu"
    if i < 0:
        i = txt.rfind("Timeout (")
        kind = "wall"
    if i < 0:
        return "none", False, txt[-1500:]
    tail = txt[i:]
    # faulthandler prints most recent call first
    m = re.findall(r'File "([^"]+)", line \d+ in (\S+)', tail)
    for fn, func in m[:60]:
        if "/dask_expr/" in fn:
            return kind, True, "%s:%s" % (os.path.basename(fn), func)
    return kind, False, tail[:1500]


def run_one(tpl: Templates, prop, tier, run_seed, cap_s, spec=None):
    """One session (generate+execute) or one exec of a given spec.  Returns result dict."""
    hs = spec["hash_seed"] if spec is not None and "hash_seed" in spec else R.hash_seed_for(run_seed)
    logpath = os.path.join(tpl.logs, "s-%s-%016x-%d.err" % (prop, run_seed, time.monotonic_ns() % 10**9))
    if spec is None:
        req = {"cmd": "session", "property": prop, "run_seed": run_seed, "tier": tier, "hash_seed": hs,
               "stderr_path": logpath, "own_group": True}
    else:
        req = {"cmd": "exec", "property": prop, "spec": spec, "stderr_path": logpath, "own_group": True}
    pids = []
    try:
        res = ipc.call(hs, req, timeout=cap_s, sockdir=tpl.sockdir, want_pid=pids)
        if res.get("verdict") == "child_lost":
            lost_spec = res.get("spec")
            raise ipc.PristineError(res.get("detail"))
    except ipc.PristineError as e:
        if spec is None and "lost_spec" in locals():
            spec = lost_spec
        for pid in pids:
            try:
                os.killpg(pid, 9)
            except OSError:
                pass
        kind, inside, where = _stack_in_dask_expr(logpath)
        if kind == "cpu" and not (inside and prop == "C19"):
            # only C19 states a termination bound; elsewhere an exhausted CPU budget is a performance matter
            # (e.g. nested sorts re-deriving their quantiles under a shrunk cache), reported as inconclusive
            res = {"verdict": "wall_timeout", "detail": "CPU budget exhausted in %s (inconclusive outside C19)" % where, "spec": spec}
        elif kind == "cpu" and inside:
            res = {"verdict": "violation", "oracle": "timeout", "signature": "timeout@" + where,
                   "detail": "no result within the CPU-time budget; innermost dask_expr frame %s" % where,
                   "spec": spec}
        elif kind == "wall":
            # wall-clock backstop on a loaded machine: inconclusive, neither a verdict nor a harness defect
            res = {"verdict": "wall_timeout", "detail": "wall backstop %ss hit (machine load); %s" % (cap_s, where[:200]), "spec": spec}
        else:
            res = {"verdict": "harness_error", "detail": "transport/timeout: %s | %s" % (e, where[-800:]), "spec": spec}
    if res.get("verdict") in ("harness_error",) and "traceback" not in res:
        try:
            res["stderr_tail"] = open(logpath).read()[-1500:]
        except OSError:
            pass
    try:
        os.unlink(logpath)
    except OSError:
        pass
    res.setdefault("spec", spec)
    res["run_seed"] = run_seed
    res["hash_seed"] = hs
    return res


def load_known():
    p = os.path.join(HERE, "known_findings.json")
    if not os.path.exists(p):
        return []
    return json.load(open(p)).get("findings", [])


def match_known(prop, res, known):
    for f in known:
        if f["property"] != prop:
            continue
        exp = f.get("expect") or {}
        if exp.get("oracle") and exp["oracle"] != res.get("oracle"):
            continue
        if exp.get("signature_regex") and not re.search(exp["signature_regex"], res.get("signature", "")):
            continue
        if f.get("oracle") and f["oracle"] != res.get("oracle"):
            continue
        if f.get("signature_regex") and not re.search(f["signature_regex"], res.get("signature", "")):
            continue
        if f.get("detail_regex") and not re.search(f["detail_regex"], res.get("detail", "")):
            continue
        return f
    return None


def strip_volatile(res):
    """Result without anything that may legitimately differ between identical runs."""
    return {k: v for k, v in res.items() if k not in ("stderr_tail", "traceback", "wall_s")}


def session_digest(res):
    return R.digest(strip_volatile(res))


def run_batch(prop, tier, seed, n_sessions, procs, cap_s, budget_s, tpl, on_result=None):
    t0 = time.time()
    results = []
    seeds = [R.H(seed, prop, tier, i) for i in range(n_sessions)]
    stopped_early = False
    with cf.ThreadPoolExecutor(max_workers=procs) as ex:
        pending = {}
        it = iter(enumerate(seeds))

        def submit_next():
            try:
                i, rs = next(it)
            except StopIteration:
                return False
            pending[ex.submit(run_one, tpl, prop, tier, rs, cap_s)] = (i, rs)
            return True

        for _ in range(procs):
            if not submit_next():
                break
        while pending:
            done, _ = cf.wait(list(pending), return_when=cf.FIRST_COMPLETED)
            for f in done:
                i, rs = pending.pop(f)
                try:
                    res = f.result()
                except Exception as e:  # driver-side failure
                    res = {"verdict": "harness_error", "detail": "driver: %r" % (e,), "run_seed": rs}
                res["index"] = i
                results.append(res)
                if on_result:
                    on_result(res)
                if time.time() - t0 < budget_s:
                    submit_next()
                else:
                    stopped_early = True
    results.sort(key=lambda r: r["index"])
    return results, time.time() - t0, stopped_early


def check(prop, tier="quick", seed=0, procs=16, n_sessions=None, budget_s=None, cap_s=None, write_evidence=True,
          verbose=False):
    from sim import handlers, minimize

    prof = handlers.profile(prop)
    sessions = n_sessions or getattr(prof, "SESSIONS", {"quick": 200, "thorough": 2000})[tier]
    budget_s = budget_s or getattr(prof, "BUDGET_S", {"quick": 100, "thorough": 1200})[tier]
    cap_s = cap_s or getattr(prof, "CAP_S", {"quick": 240, "thorough": 480})[tier]
    known = load_known()
    t0 = time.time()
    viol_new = []
    viol_known = {}
    harness = []
    with Templates() as tpl:
        # known findings: re-run each finding's own probe; it is reported only while it still fails as recorded
        for f in known:
            if f["property"] != prop or not f.get("probe"):
                continue
            pspec = dict(f["probe"], hash_seed=f.get("probe_hash_seed", 0), no_gate=True)
            pr = run_one(tpl, prop, tier, 0, cap_s, spec=pspec)
            if pr.get("verdict") == "violation" and match_known(prop, pr, [f]) is not None:
                viol_known.setdefault(f["id"], []).append(pr)
            elif pr.get("verdict") == "violation":
                pr["spec"] = pspec
                viol_new.append(pr)
            elif pr.get("verdict") == "harness_error":
                harness.append(pr)
        results, wall, stopped_early = run_batch(prop, tier, seed, sessions, procs, cap_s, budget_s, tpl)
        # classify
        for r in results:
            v = r.get("verdict")
            if v == "violation":
                # session violations are matched only against findings that declare a session-level signature
                kf = match_known(prop, r, [k for k in known if k.get("match_sessions")])
                if kf is not None:
                    viol_known.setdefault(kf["id"], []).append(r)
                else:
                    viol_new.append(r)
            elif v == "harness_error":
                harness.append(r)
        # minimise + write replay for new violations (dedupe by oracle/signature)
        replay_paths = []
        seen_sig = set()
        for r in viol_new:
            sig = (r.get("oracle"), r.get("signature"))
            if sig in seen_sig:
                continue
            seen_sig.add(sig)
            spec = r.get("spec")
            mstats = None
            if spec is not None and hasattr(prof, "shrink_candidates") and r.get("oracle") != "timeout":
                def run_exec(s, _hs=r["hash_seed"]):
                    s = dict(s)
                    s["hash_seed"] = _hs
                    return run_one(tpl, prop, tier, r["run_seed"], cap_s, spec=s)
                # confirm first: the recorded spec must reproduce in a fresh process
                conf = run_exec(spec)
                if minimize.same_violation(r, conf):
                    spec2, res2, mstats = minimize.minimize(spec, conf, prof.shrink_candidates, run_exec,
                                                            budget_s=60.0 if tier == "quick" else 180.0)
                    spec2["hash_seed"] = r["hash_seed"]
                    r = dict(res2, spec=spec2, run_seed=r["run_seed"], hash_seed=r["hash_seed"], index=r.get("index"))
                else:
                    mstats = {"note": "recorded spec did not reproduce on confirmation; reported unminimised",
                              "confirm": strip_volatile(conf).get("verdict")}
            path = write_replay(prop, r, seed, tier, mstats)
            replay_paths.append((r, path))
    wall = time.time() - t0
    # report
    for fid, rs in sorted(viol_known.items()):
        f = [k for k in known if k["id"] == fid][0]
        print("KNOWN-FINDING: property=%s %s (%s; hit in %d sessions)" % (prop, f["what"], fid, len(rs)))
    for r, path in replay_paths:
        print("VIOLATION property=%s replay=%s" % (prop, path))
        print("  oracle=%s signature=%s detail=%s" % (r.get("oracle"), r.get("signature"), (r.get("detail") or "")[:300]))
    for r in harness[:5]:
        print("HARNESS-ERROR seed=%x %s" % (r.get("run_seed", 0), (r.get("detail") or "")[:500]))
        if verbose and r.get("traceback"):
            print(r["traceback"])
    if write_evidence:
        ev = build_evidence(prop, tier, seed, results, wall, viol_new, viol_known, harness, stopped_early, prof, procs)
        os.makedirs(os.path.join(HERE, "evidence"), exist_ok=True)
        with open(os.path.join(HERE, "evidence", "%s.json" % prop), "w") as f:
            json.dump(ev, f, indent=1, sort_keys=True, default=repr)
    n_ok = sum(1 for r in results if r.get("verdict") == "ok")
    print("%s tier=%s seed=%d sessions=%d ok=%d violations=%d known=%d harness_errors=%d skipped=%d wall=%.1fs" % (
        prop, tier, seed, len(results), n_ok, len(viol_new), sum(len(v) for v in viol_known.values()), len(harness),
        sum(1 for r in results if r.get("verdict") == "skip"), wall))
    n_wall = sum(1 for r in results if r.get("verdict") == "wall_timeout")
    if n_wall:
        print("note: %d of %d sessions hit the wall-clock backstop (inconclusive, not counted as held)" % (n_wall, len(results)))
    if viol_new:
        return 1
    if harness:
        return 3
    if not results or n_wall > max(2, len(results) // 4):
        print("HARNESS-ERROR too few conclusive sessions (%d wall timeouts of %d)" % (n_wall, len(results)))
        return 3
    return 0


def write_replay(prop, r, seed, tier, mstats):
    os.makedirs(os.path.join(HERE, "replays"), exist_ok=True)
    path = os.path.join(HERE, "replays", "%s-%016x.json" % (prop, r["run_seed"]))
    doc = {
        "property": prop,
        "oracle": r.get("oracle"),
        "signature": r.get("signature"),
        "detail": r.get("detail"),
        "verif_seed": seed,
        "tier": tier,
        "run_seed": r["run_seed"],
        "hash_seed": r["hash_seed"],
        "spec": r.get("spec"),
        "minimisation": mstats,
        "extra": {k: r[k] for k in ("target", "run", "trace") if k in r},
    }
    with open(path, "w") as f:
        json.dump(doc, f, indent=1, sort_keys=True, default=repr)
    return path


def replay(prop, path, procs=1):
    doc = json.load(open(path))
    spec = doc["spec"]
    if spec is None:
        print("replay file has no spec (timeout during generation); re-run the seed instead")
        return 3
    spec["hash_seed"] = doc["hash_seed"]
    with Templates(hash_seeds=R.HASH_SEEDS) as tpl:
        res = run_one(tpl, prop, doc.get("tier", "quick"), doc["run_seed"], 240, spec=spec)
    same = res.get("verdict") == "violation" and res.get("oracle") == doc["oracle"] and res.get("signature") == doc["signature"]
    print("replay verdict=%s oracle=%s signature=%s detail=%s" % (res.get("verdict"), res.get("oracle"), res.get("signature"),
                                                                 (res.get("detail") or "")[:300]))
    if same:
        print("VIOLATION property=%s replay=%s" % (prop, path))
        return 1
    if res.get("verdict") == "violation":
        print("VIOLATION property=%s replay=%s (different class than recorded)" % (prop, path))
        return 1
    if res.get("verdict") == "harness_error":
        print(res.get("traceback") or res.get("stderr_tail") or "")
        return 3
    return 0


def build_evidence(prop, tier, seed, results, wall, viol_new, viol_known, harness, stopped_early, prof, procs):
    evals = len(results)
    nontrivial = {}
    counters = {}
    interleavings = set()
    policies = {}
    fault_kinds = {}
    probes = {}
    indeterminate = 0
    for r in results:
        if r.get("nontrivial") and r.get("case_digest"):
            nontrivial[r["case_digest"]] = True
        for k, v in (r.get("counters") or {}).items():
            if isinstance(v, (int, float)):
                counters[k] = counters.get(k, 0) + v
        for d in r.get("interleavings") or []:
            interleavings.add(d)
        for k, v in (r.get("policies") or {}).items():
            policies[k] = policies.get(k, 0) + v
        for k, v in (r.get("faults") or {}).items():
            fault_kinds[k] = fault_kinds.get(k, 0) + v
        for k, v in (r.get("probes") or {}).items():
            probes[k] = probes.get(k, 0) + v
        if r.get("verdict") == "indeterminate":
            indeterminate += 1
    samples = []
    for r in results:
        if r.get("spec") is not None and r.get("verdict") == "ok" and r.get("nontrivial"):
            samples.append({"run_seed": "%016x" % r["run_seed"], "hash_seed": r["hash_seed"], "spec": r["spec"],
                            "counters": r.get("counters")})
        if len(samples) >= 3:
            break
    if not samples:
        for r in results[:2]:
            samples.append({"run_seed": "%016x" % r.get("run_seed", 0), "verdict": r.get("verdict"), "spec": r.get("spec")})
    hours = max(wall, 1e-9) / 3600.0
    cov = {
        "evaluations": evals,
        "distinct_nontrivial": len(nontrivial),
        "rule": getattr(prof, "RULE", "sessions drawn from VERIF_SEED; distinct = distinct digest of (recipe, perturbations); "
                        "non-trivial = at least one perturbed execution was compared with its reference"),
        "samples": samples,
        "sessions_per_hour": round(evals / hours),
        "seeds_per_hour": round(evals / hours),
        "simulated_ticks": counters.get("ticks", 0),
        "tasks_executed": counters.get("tasks", 0),
        "graphs_executed": counters.get("graphs", 0),
        "distinct_interleavings": len(interleavings),
        "interleaving_measure": "distinct (graph size, completion order) digests of simulated executions with > 1 task",
        "schedule_policies_used": policies,
        "faults_fired": fault_kinds,
        "probes": probes,
        "counters": counters,
        "indeterminate": indeterminate,
        "skipped": sum(1 for r in results if r.get("verdict") == "skip"),
        "wall_timeouts_inconclusive": sum(1 for r in results if r.get("verdict") == "wall_timeout"),
        "harness_errors": len(harness),
        "known_findings_hit": {k: len(v) for k, v in viol_known.items()},
        "stopped_early_by_budget": stopped_early,
        "processes": procs,
        "real_vs_stub": REAL_STUB,
        "exhaustive": False,
    }
    return {
        "property_id": prop,
        "tier": tier,
        "seed": seed,
        "level": "exploration",
        "coverage": cov,
        "assumptions": getattr(prof, "ASSUMPTIONS", [
            "task bodies are atomic (no pre-emption inside a task)",
            "the reference run (default knobs, 1 worker FIFO, pristine process) of dask-expr itself is the oracle",
        ]),
        "wall_s": round(wall, 2),
        "violations": len(viol_new),
    }

"""SimScheduler: a simulated cluster behind dask's ``scheduler=`` seam.

``SimScheduler(...).get`` has dask's ``get(dsk, keys, **kw)`` signature.  It is
handed to ``compute/persist(scheduler=...)`` and installed with
``dask.config.set(scheduler=...)`` so that nested planner computes (quantiles,
lengths, memory usage) run on it as well.

Task bodies run real code, atomically, through ``dask.core._execute_task``.  The
simulator owns: which ready task starts next, on which worker, how long it
"takes" (which decides when its result becomes visible to dependents), whether
values crossing workers are copied (pickle round trip) or passed by reference,
stalls, injected task errors, and GC points.  Every choice is drawn from a seeded
PRNG (or from an explicit decision trace on replay) and appended to the trace.
"""
from __future__ import annotations

import gc
import heapq
import pickle
import random

import cloudpickle
from dask.core import _execute_task, get_dependencies, ishashable, istask

from sim.fingerprint import OPAQUE, fingerprint, is_partd_handle

POLICIES = ("random", "fifo", "lifo", "revkey", "consumer_perm", "starve")


class InjectedTaskError(Exception):
    """Raised by the simulator instead of / after a task body."""


class SimDeadlock(Exception):
    pass


class GraphDefect(Exception):
    """Admission failure: the graph handed to the scheduler is not runnable."""

    def __init__(self, kind, detail):
        super().__init__("%s: %s" % (kind, detail))
        self.kind = kind
        self.detail = detail


class MutationDetected(Exception):
    def __init__(self, key, dep, when):
        super().__init__("task %r changed its input %r (%s)" % (key, dep, when))
        self.key = key
        self.dep = dep
        self.when = when


def keystr(k):
    return repr(k)


def sort_keys(keys):
    return sorted(keys, key=keystr)


def ensure_plain(dsk):
    if hasattr(dsk, "to_dict"):
        return dsk.to_dict()
    if not isinstance(dsk, dict):
        return dict(dsk)
    return dsk


def flatten_keys(keys):
    out = []
    if isinstance(keys, list):
        for k in keys:
            out.extend(flatten_keys(k))
    else:
        out.append(keys)
    return out


def key_stem(k):
    """Name part of a key: 'name' or ('name', i, ...)."""
    if isinstance(k, tuple) and k and isinstance(k[0], str):
        return k[0]
    if isinstance(k, str):
        return k
    return None


def analyse(dsk):
    """dependencies / dependents with stable ordering."""
    deps = {}
    for k in dsk:
        deps[k] = get_dependencies(dsk, k)
    dependents = {k: set() for k in dsk}
    for k, ds in deps.items():
        for d in ds:
            dependents[d].add(k)
    return deps, dependents


def find_cycle(deps):
    WHITE, GREY, BLACK = 0, 1, 2
    color = {k: WHITE for k in deps}
    for root in sort_keys(deps):
        if color[root] != WHITE:
            continue
        stack = [(root, iter(sort_keys(deps[root])))]
        color[root] = GREY
        while stack:
            node, it = stack[-1]
            for nxt in it:
                if color[nxt] == GREY:
                    return (node, nxt)
                if color[nxt] == WHITE:
                    color[nxt] = GREY
                    stack.append((nxt, iter(sort_keys(deps[nxt]))))
                    break
            else:
                color[node] = BLACK
                stack.pop()
    return None


def keylike_literals(task, dsk, stems, out, _in_graph_literal=False):
    """Collect key-shaped literals (str / tuple(str, int...)) inside a task that are
    not defined in dsk although their stem is a known name: dask would silently
    pass them through as literal tuples."""
    if isinstance(task, list):
        for t in task:
            keylike_literals(t, dsk, stems, out)
        return
    if istask(task):
        for a in task[1:]:
            keylike_literals(a, dsk, stems, out)
        return
    if isinstance(task, tuple):
        try:
            if task in dsk:  # a defined key (keys may nest: (("name", 0), 0))
                return
        except TypeError:
            pass
        if task and isinstance(task[0], str) and task[0] in stems:
            # key-shaped literal whose head is a known name but which is not defined
            out.append(task)
            return
        for a in task:
            keylike_literals(a, dsk, stems, out)
        return
    if isinstance(task, dict):
        # literal dict argument (Fused sub-graph): checked separately
        return


def admission(dsk, keys, extra_stems=()):
    """Closure / outputs / acyclicity.  Raises GraphDefect."""
    flat = flatten_keys(keys)
    for k in flat:
        if k not in dsk:
            raise GraphDefect("missing_output", keystr(k))
    deps, dependents = analyse(dsk)
    stems = {key_stem(k) for k in dsk} | set(extra_stems)
    stems.discard(None)
    dangling = []
    for k in sort_keys(dsk):
        keylike_literals(dsk[k], dsk, stems, dangling)
        if dangling:
            raise GraphDefect("dangling_reference", "%s -> %s" % (keystr(k), keystr(dangling[0])))
    cyc = find_cycle(deps)
    if cyc is not None:
        raise GraphDefect("cycle", "%s <-> %s" % (keystr(cyc[0]), keystr(cyc[1])))
    return deps, dependents


class World:
    """Schedule configuration of one simulated execution."""

    def __init__(
        self,
        seed=0,
        policy="fifo",
        workers=1,
        transfer="ref",
        gc_prob=0.0,
        stall=None,
        faults=None,
        decisions=None,
        perm_keys=3,
    ):
        self.seed = seed
        self.policy = policy
        self.workers = workers
        self.transfer = transfer  # "ref" | "copy"
        self.gc_prob = gc_prob
        self.stall = stall  # (worker, from_task_ordinal, n_tasks) or None
        self.faults = list(faults or [])  # [{"kind":"task_error","graph":g,"ordinal":n,"when":"before"|"after"}]
        self.decisions = decisions  # explicit trace for replay / minimisation
        self.perm_keys = perm_keys

    def to_json(self):
        return {
            "seed": self.seed,
            "policy": self.policy,
            "workers": self.workers,
            "transfer": self.transfer,
            "gc_prob": self.gc_prob,
            "stall": self.stall,
            "faults": self.faults,
            "decisions": self.decisions,
        }

    @classmethod
    def from_json(cls, d):
        return cls(
            seed=d.get("seed", 0),
            policy=d.get("policy", "fifo"),
            workers=d.get("workers", 1),
            transfer=d.get("transfer", "ref"),
            gc_prob=d.get("gc_prob", 0.0),
            stall=d.get("stall"),
            faults=d.get("faults"),
            decisions=d.get("decisions"),
        )

    @classmethod
    def draw(cls, rng: random.Random, allow_copy=True):
        policy = rng.choice(POLICIES)
        workers = rng.choice([1, 1, 2, 2, 3, 4, 4, 8, 16])
        transfer = rng.choice(["ref", "ref", "copy"]) if allow_copy else "ref"
        gc_prob = rng.choice([0.0, 0.0, 0.05, 0.3])
        stall = None
        if policy == "starve":
            workers = max(workers, 2)
            stall = [rng.randrange(workers), rng.randrange(0, 6), rng.randrange(3, 30)]
        return cls(
            seed=rng.getrandbits(48),
            policy=policy,
            workers=workers,
            transfer=transfer,
            gc_prob=gc_prob,
            stall=stall,
        )


REFERENCE_WORLD = dict(seed=0, policy="fifo", workers=1, transfer="ref")


class SimScheduler:
    """One instance per simulated execution context (may serve several graphs:
    the query graph and the planner's nested computes)."""

    def __init__(self, world: World, monitor=True, admission_check=True, log=None, check_all_every=0):
        self.world = world
        self.rng = random.Random(world.seed)
        self.monitor = monitor
        self.admission_check = admission_check
        self.log = log if log is not None else []
        self.trace = []  # decisions taken (ints)
        self._replay = list(world.decisions) if world.decisions is not None else None
        self._replay_pos = 0
        self.graphs = 0
        self.tasks_run = 0
        self.ticks = 0
        self.faults_fired = []
        self.order_digests = []
        self.transfers = 0
        self.copies = 0
        self.gc_points = 0
        self.mutations = []  # recorded (not raised) when monitor == "record"
        self.max_inflight = 0
        self.perm_realised = 0
        self.check_all_every = check_all_every
        self.graph_sizes = []
        self.extra_stems = ()

    # -- decisions ---------------------------------------------------------
    def _choose(self, n, kind):
        if n <= 1:
            return 0
        if self._replay is not None:
            if self._replay_pos < len(self._replay):
                v = self._replay[self._replay_pos] % n
            else:
                v = 0
            self._replay_pos += 1
        else:
            v = self.rng.randrange(n)
        self.trace.append(v)
        return v

    def _uniform(self):
        # durations etc.: not part of the minimisable trace when replaying
        return self.rng.random()

    # -- scheduler entry point ----------------------------------------------
    def get(self, dsk, keys, **kwargs):
        dsk = ensure_plain(dsk)
        gi = self.graphs
        self.graphs += 1
        if self.admission_check:
            deps, dependents = admission(dsk, keys, self.extra_stems)
        else:
            deps, dependents = analyse(dsk)
        self.graph_sizes.append(len(dsk))
        w = self.world
        W = max(1, int(w.workers))
        policy = w.policy
        faults = [f for f in w.faults if f.get("graph", 0) == gi or f.get("graph") == "*"]

        order_index = {k: i for i, k in enumerate(sort_keys(dsk))}
        waiting = {k: set(ds) for k, ds in deps.items()}
        ready = [k for k in sort_keys(dsk) if not waiting[k]]
        arrival = {k: i for i, k in enumerate(ready)}
        arrival_ctr = len(ready)
        finished = {}  # key -> value (canonical copy, on producing worker)
        where = {}  # key -> worker
        local = [dict() for _ in range(W)]  # per-worker copies for transfer=copy
        pub_fp = {}
        running = []  # heap (finish_tick, seq, key, worker, value)
        idle = list(range(W))
        seq = 0
        t = 0
        started = 0
        completion_order = []
        stall = w.stall
        # consumer-permutation targets: keys with >= 2 dependents
        perm_plan = {}
        if policy == "consumer_perm":
            shared = [k for k in sort_keys(dsk) if len(dependents[k]) >= 2]
            self.rng.shuffle(shared)
            for k in shared[: w.perm_keys]:
                cons = sort_keys(dependents[k])
                self.rng.shuffle(cons)
                for rank, c in enumerate(cons):
                    perm_plan.setdefault(c, (order_index[k], rank))

        flat_out = set(flatten_keys(keys))
        n_total = len(dsk)
        self._legacy_victims = set()
        self._legacy_victim_ids = set()
        self._finished_ref = finished
        for k in dsk:
            if self._deep_stem(k).startswith(self.LEGACY_MUTATORS):
                self._legacy_victims.update(deps[k])

        def pick_task(ready):
            if policy == "fifo":
                cand = sorted(ready, key=lambda k: arrival[k])
                return cand[0]
            if policy == "lifo":
                cand = sorted(ready, key=lambda k: -arrival[k])
                return cand[0]
            if policy == "revkey":
                return sort_keys(ready)[-1]
            if policy == "consumer_perm":
                planned = [k for k in ready if k in perm_plan]
                if planned:
                    planned.sort(key=lambda k: perm_plan[k])
                    return planned[0]
                cand = sort_keys(ready)
                return cand[self._choose(len(cand), "task")]
            cand = sort_keys(ready)
            return cand[self._choose(len(cand), "task")]

        while len(finished) < n_total:
            # start as many tasks as there are idle, non-stalled workers
            progressed = True
            while ready and idle and progressed:
                progressed = False
                avail = list(idle)
                if stall is not None and stall[1] <= started < stall[1] + stall[2]:
                    avail = [x for x in avail if x != stall[0]]
                if not avail:
                    break
                k = pick_task(ready)
                ready.remove(k)
                wk = avail[self._choose(len(avail), "worker")] if len(avail) > 1 else avail[0]
                idle.remove(wk)
                value = self._run_task(dsk, k, deps[k], finished, where, local, wk, pub_fp, faults, started, gi)
                started += 1
                dur = 1 + int(self._uniform() * 8) if W > 1 else 1
                seq += 1
                heapq.heappush(running, (t + dur, seq, keystr(k), k, wk, value))
                self.max_inflight = max(self.max_inflight, len(running))
                progressed = True
            if not running:
                missing = [keystr(k) for k in sort_keys(flat_out) if k not in finished]
                raise SimDeadlock("no runnable task; unfinished outputs: %s" % missing[:3])
            ft, _, _, k, wk, value = heapq.heappop(running)
            t = ft
            finished[k] = value
            where[k] = wk
            idle.append(wk)
            idle.sort()
            completion_order.append(order_index[k])
            if self.monitor:
                pub_fp[k] = fingerprint(value)
            for d in sort_keys(dependents[k]):
                s = waiting[d]
                s.discard(k)
                if not s and d not in finished and d not in arrival:
                    arrival[d] = arrival_ctr
                    arrival_ctr += 1
                    ready.append(d)
        # end-of-run: every published value still has its publish-time fingerprint
        if self.monitor:
            for k in sort_keys(finished):
                if pub_fp.get(k) not in (None, OPAQUE) and fingerprint(finished[k]) != pub_fp[k]:
                    self._mutation(k, k, "result changed after it was published")
        self.ticks += t
        import hashlib

        self.order_digests.append(
            hashlib.sha256(repr((len(dsk), completion_order)).encode()).hexdigest()[:12]
        )

        def lookup(ks):
            if isinstance(ks, list):
                return [lookup(x) for x in ks]
            return finished[ks]

        return lookup(keys)

    # -- one task ------------------------------------------------------------
    # task functions that live in dask's legacy dataframe code, not in dask_expr: legacy _Frame.__init__ inserts
    # map_partitions(to_pyarrow_string) whose function assigns a converted index to its input in place
    # (the dask_expr-side instance of that defect was fixed in /repo: ArrowStringConversion)
    LEGACY_MUTATORS = ("to_pyarrow_string-",)

    @staticmethod
    def _deep_stem(k):
        while isinstance(k, tuple) and k:
            k = k[0]
        return k if isinstance(k, str) else ""

    def _mutation(self, key, dep, when):
        if self._deep_stem(key).startswith(self.LEGACY_MUTATORS) or dep in getattr(self, "_legacy_victims", ()) \
                or id(getattr(self, "_finished_ref", {}).get(dep, object())) in getattr(self, "_legacy_victim_ids", ()):
            self.legacy_mutations = getattr(self, "legacy_mutations", 0) + 1
            return
        if self.monitor == "record":
            self.mutations.append((keystr(key), keystr(dep), when))
        else:
            raise MutationDetected(keystr(key), keystr(dep), when)

    def _run_task(self, dsk, k, kdeps, finished, where, local, wk, pub_fp, faults, ordinal, gi):
        w = self.world
        data = {}
        before = {} if self.monitor else None
        for d in sort_keys(kdeps):
            v = finished[d]
            fp = pub_fp.get(d) if self.monitor else None
            if where[d] != wk:
                self.transfers += 1
                if w.transfer == "copy" and not is_partd_handle(v):
                    cache = local[wk]
                    if d not in cache:
                        c = pickle.loads(cloudpickle.dumps(v))
                        cache[d] = (c, fingerprint(c) if self.monitor else None)
                        self.copies += 1
                    v, fp = cache[d]
            data[d] = v
            if self.monitor:
                # publish-time fingerprint: every earlier consumer was checked after its call
                before[d] = fp if fp is not None else fingerprint(v)
        fault = None
        for f in faults:
            if f.get("kind") == "task_error" and f.get("ordinal") == ordinal:
                fault = f
        if fault is not None and fault.get("when", "before") == "before":
            self.faults_fired.append(dict(fault, key=keystr(k)))
            raise InjectedTaskError("injected before %s" % keystr(k))
        task = dsk[k]
        if w.transfer == "copy" and w.workers > 1:
            # a remote scheduler ships the task itself as bytes
            task = self._ship(task)
        if self._deep_stem(k).startswith(self.LEGACY_MUTATORS):
            # the same object may be published under several keys (aliases, pass-through tasks)
            self._legacy_victim_ids.update(id(v_) for v_ in data.values())
        value = _execute_task(task, data)
        self.tasks_run += 1
        if self.monitor:
            for d, v in data.items():
                if before[d] != OPAQUE and fingerprint(v) != before[d]:
                    self._mutation(k, d, "argument differs after the call")
        if fault is not None:
            self.faults_fired.append(dict(fault, key=keystr(k)))
            raise InjectedTaskError("injected after %s" % keystr(k))
        if w.gc_prob and self._uniform() < w.gc_prob:
            gc.collect()
            self.gc_points += 1
        return value

    def _ship(self, task):
        try:
            if _contains_partd(task):
                return task
            return pickle.loads(cloudpickle.dumps(task))
        except Exception:
            raise


def _contains_partd(task, depth=0):
    if depth > 4:
        return False
    if isinstance(task, (tuple, list)):
        return any(_contains_partd(t, depth + 1) for t in task)
    return is_partd_handle(task) or type(task).__name__ == "maybe_buffered_partd"


def summarize(s: SimScheduler):
    return {
        "graphs": s.graphs,
        "tasks": s.tasks_run,
        "ticks": s.ticks,
        "transfers": s.transfers,
        "copies": s.copies,
        "gc_points": s.gc_points,
        "faults_fired": len(s.faults_fired),
        "max_inflight": s.max_inflight,
    }

"""Per-process session context: scratch directory, scheduler seam, outcome classes."""
from __future__ import annotations

import contextlib
import gc
import os
import shutil
import tempfile

import dask

from sim import sched as S
from sim.fingerprint import obs_digest, obs_equal, observe

REFUSALS = (NotImplementedError, ValueError, TypeError)


class Outcome:
    """Result of one observation attempt."""

    __slots__ = ("cls", "obs", "exc", "detail", "sched")

    def __init__(self, cls, obs=None, exc=None, detail="", sched=None):
        self.cls = cls  # ok | refusal | internal | injected | mutation | graph | deadlock
        self.obs = obs
        self.exc = exc
        self.detail = detail
        self.sched = sched

    def brief(self):
        if self.cls == "ok":
            return "ok:" + obs_digest(self.obs)
        return "%s:%s" % (self.cls, self.detail[:200])


def classify(e: BaseException) -> str:
    if isinstance(e, S.InjectedTaskError):
        return "injected"
    if isinstance(e, S.MutationDetected):
        return "mutation"
    if isinstance(e, S.GraphDefect):
        return "graph"
    if isinstance(e, S.SimDeadlock):
        return "deadlock"
    if isinstance(e, REFUSALS) and not isinstance(e, (KeyError, IndexError)):
        # explicit refusals; UnicodeError etc. are ValueErrors too but do not occur here
        return "refusal"
    return "internal"


def exc_detail(e):
    import traceback

    tb = traceback.extract_tb(e.__traceback__)
    site = ""
    for fr in reversed(tb):
        if "dask_expr" in fr.filename:
            site = "%s:%s" % (os.path.basename(fr.filename), fr.name)
            break
    msg = str(e).split("\n")[0][:160]
    return "%s@%s: %s" % (type(e).__name__, site, msg)


def exc_signature(e):
    """Stable signature (no tokens, no line numbers): exception class + innermost dask_expr function."""
    import traceback

    tb = traceback.extract_tb(e.__traceback__)
    site = ""
    for fr in reversed(tb):
        if "dask_expr" in fr.filename:
            site = "%s:%s" % (os.path.basename(fr.filename), fr.name)
            break
    return "%s@%s" % (type(e).__name__, site)


class _SeededUUID:
    """Stand-in for the ``uuid`` module inside dask_expr._shuffle: DiskShuffle
    draws uuid1() per materialisation; a process-local counter keeps keys unique
    and makes event logs replayable."""

    class _U:
        def __init__(self, n):
            self.hex = "%032x" % n

    def __init__(self):
        self.n = 0

    def uuid1(self):
        self.n += 1
        return self._U(self.n)

    def uuid4(self):
        return self.uuid1()


def install_uuid_shim():
    import dask_expr._shuffle as sh

    if not hasattr(sh, "uuid"):
        return None  # this tree draws no uuid in the shuffle module: nothing to make replayable
    if not isinstance(sh.uuid, _SeededUUID):
        sh.uuid = _SeededUUID()
    return sh.uuid


class Session:
    def __init__(self, uuid_shim=True):
        if uuid_shim:
            install_uuid_shim()
        root = os.environ.get("VERIF_SCRATCH") or tempfile.gettempdir()
        self.scratch = tempfile.mkdtemp(prefix="s-", dir=root)
        # default scheduler for every compute issued outside an explicit simulated run (nested planner
        # computes during optimize()/lowering, len(), ...): never dask's real thread pool
        self.default_sched = S.SimScheduler(S.World(**S.REFERENCE_WORLD), monitor=False, admission_check=False)
        self._cfg = dask.config.set({"temporary_directory": self.scratch, "scheduler": self.default_sched.get})
        self._cfg.__enter__()
        self.totals = {"graphs": 0, "tasks": 0, "ticks": 0, "transfers": 0, "copies": 0, "gc_points": 0,
                       "faults_fired": 0, "executions": 0}
        self.order_digests = set()
        self.policies = {}

    def close(self):
        try:
            self._cfg.__exit__(None, None, None)
        except Exception:
            pass
        shutil.rmtree(self.scratch, ignore_errors=True)

    def account(self, sch: S.SimScheduler):
        s = S.summarize(sch)
        for k in ("graphs", "tasks", "ticks", "transfers", "copies", "gc_points", "faults_fired"):
            self.totals[k] += s[k]
        self.totals["executions"] += 1
        for g, d in zip(sch.graph_sizes, sch.order_digests):
            if g > 1:
                self.order_digests.add(d)
        self.policies[sch.world.policy] = self.policies.get(sch.world.policy, 0) + 1

    @contextlib.contextmanager
    def scheduler(self, world: S.World, monitor=True, admission_check=True):
        sch = S.SimScheduler(world, monitor=monitor, admission_check=admission_check)
        with dask.config.set(scheduler=sch.get):
            try:
                yield sch
            finally:
                self.account(sch)

    def run(self, thunk, world: S.World, monitor=True, det=None, admission_check=True, observe_fn=None):
        """Run ``thunk(sched)`` (which computes something through the simulated
        scheduler) and classify the outcome."""
        with self.scheduler(world, monitor=monitor, admission_check=admission_check) as sch:
            try:
                val = thunk(sch)
            except BaseException as e:
                if isinstance(e, (KeyboardInterrupt, SystemExit, MemoryError)):
                    raise
                return Outcome(classify(e), exc=e, detail=exc_detail(e), sched=sch)
        det = det or {}
        if observe_fn is not None:
            obs = observe_fn(val)
        else:
            obs = observe(val, labels=det.get("labels", "defined") == "defined", order=det.get("order", "open") == "defined")
            if det.get("sorted"):
                obs["sorted_ok"] = sorted_ok(val, det["sorted"])
        return Outcome("ok", obs=obs, sched=sch)

    def compute_parts(self, coll, world, fuse=True, monitor=False, det=None, admission_check=False):
        """Execute the optimized plan partition by partition and concatenate (what dask.compute(q), persist and
        to_delayed users see).  FrameBase.compute() first collapses the plan with repartition(npartitions=1), which
        hides inter-partition defects such as a wrong global sort order."""
        import pandas as pd

        def thunk(sch):
            opt = coll.optimize(fuse=fuse)
            dsk = dict(opt.__dask_graph__())
            parts = sch.get(dsk, opt.__dask_keys__())
            if isinstance(parts, list) and parts and isinstance(parts[0], (pd.DataFrame, pd.Series)):
                return pd.concat(parts) if len(parts) > 1 else parts[0]
            if isinstance(parts, list) and parts and isinstance(parts[0], pd.Index):
                return parts[0].append(list(parts[1:])) if len(parts) > 1 else parts[0]
            if isinstance(parts, list) and len(parts) == 1:
                return parts[0]
            return parts

        return self.run(thunk, world, monitor=monitor, det=det, admission_check=admission_check)

    def compute_unoptimized(self, coll, world, det=None):
        """Execute the query lowered without any optimization (what dask.compute(q) does)."""
        import pandas as pd

        def thunk(sch):
            low = coll.expr.lower_completely()
            parts = sch.get(dict(low.__dask_graph__()), low.__dask_keys__())
            if isinstance(parts, list) and parts and isinstance(parts[0], (pd.DataFrame, pd.Series)):
                return pd.concat(parts) if len(parts) > 1 else parts[0]
            if isinstance(parts, list) and parts and isinstance(parts[0], pd.Index):
                return parts[0].append(list(parts[1:])) if len(parts) > 1 else parts[0]
            if isinstance(parts, list) and len(parts) == 1:
                return parts[0]
            return parts

        return self.run(thunk, world, monitor=False, det=det, admission_check=False)

    def reference_is_self_consistent(self, coll, ref_obs, world, det=None):
        """True unless the query's optimized result differs from its own unoptimized result (then whatever a
        differential oracle sees is rooted in the optimizer changing this query's meaning - property C01, not claimed -
        and 'the reference' is not well defined)."""
        un = self.compute_unoptimized(coll, world, det=det)
        if un.cls != "ok":
            return True  # cannot tell: do not suppress anything on that ground
        a, b = dict(ref_obs), dict(un.obs)
        a["kinds"] = b["kinds"] = None
        a.pop("sorted_ok", None)
        b.pop("sorted_ok", None)
        eq, _ = obs_equal(a, b)
        return eq

    def compute(self, coll, world, fuse=True, monitor=True, det=None, admission_check=True):
        return self.run(lambda sch: coll.compute(scheduler=sch.get, fuse=fuse), world, monitor=monitor, det=det,
                        admission_check=admission_check)


def sorted_ok(val, how):
    """how = {"by": [cols] | None (index), "ascending": bool}; ties and the position of nulls are not judged."""
    import pandas as pd

    try:
        if how.get("by") is None:
            s = val.index.to_series().reset_index(drop=True)
        else:
            if isinstance(val, pd.Series):
                s = val.reset_index(drop=True)
            else:
                s = val[how["by"][0]].reset_index(drop=True)
        s = s.dropna()
        if isinstance(s.dtype, pd.CategoricalDtype):
            s = s.cat.codes
        return bool(s.is_monotonic_increasing if how.get("ascending", True) else s.is_monotonic_decreasing)
    except Exception:
        return None


def reference_world():
    return S.World(**S.REFERENCE_WORLD)


def compare(ref: Outcome, got: Outcome):
    """Returns (status, reason): status in equal | different | fail | indeterminate."""
    if ref.cls != "ok":
        return "indeterminate", "reference " + ref.brief()
    if got.cls == "ok":
        eq, why = obs_equal(ref.obs, got.obs)
        return ("equal", "") if eq else ("different", why)
    if got.cls == "refusal":
        return "indeterminate", got.brief()
    return "fail", got.brief()


def collect_garbage():
    gc.collect()

"""GC control and rewrite-step accounting (attribute replacement on dask_expr._core.Expr).

Wrappers count simplify_once / rewrite / lower_once / fusion substitute calls per optimize() and
(optionally) force the cyclic collector between rewrite steps.  The step bound turns a looping
rule into a clean, replayable violation instead of a hang."""
from __future__ import annotations

import gc


class StepBoundExceeded(Exception):
    pass


class Counters:
    def __init__(self):
        self.steps = 0
        self.created = 0
        self.by_kind = {}
        self.gc_each_step = False
        self.bound_factor = 200
        self.base_nodes = 0
        self.active = False
        self.max_ratio = 0.0

    def reset(self, base_nodes=0):
        self.steps = 0
        self.created = 0
        self.by_kind = {}
        self.base_nodes = base_nodes

    def bound(self):
        return self.bound_factor * (self.base_nodes + self.created + 1)

    def step(self, kind):
        if not self.active:
            return
        self.steps += 1
        self.by_kind[kind] = self.by_kind.get(kind, 0) + 1
        if self.gc_each_step:
            gc.collect()
        if self.steps > self.bound():
            raise StepBoundExceeded("%d rewrite steps for %d nodes (%s)" % (self.steps, self.base_nodes + self.created, self.by_kind))


COUNTERS = Counters()
_installed = False


def install():
    global _installed
    if _installed:
        return COUNTERS
    from dask_expr import _core

    E = _core.Expr
    o_simplify_once, o_rewrite, o_lower_once, o_substitute, o_new = E.simplify_once, E.rewrite, E.lower_once, E.substitute, E.__new__

    def simplify_once(self, dependents, simplified):
        COUNTERS.step("simplify_once")
        return o_simplify_once(self, dependents, simplified)

    def rewrite(self, kind):
        COUNTERS.step("rewrite")
        return o_rewrite(self, kind)

    def lower_once(self):
        COUNTERS.step("lower_once")
        return o_lower_once(self)

    def substitute(self, old, new):
        COUNTERS.step("substitute")
        return o_substitute(self, old, new)

    def __new__(cls, *args, **kwargs):
        if COUNTERS.active:
            COUNTERS.created += 1
        return o_new(cls, *args, **kwargs)

    E.simplify_once = simplify_once
    E.rewrite = rewrite
    E.lower_once = lower_once
    E.substitute = substitute
    E.__new__ = __new__
    _installed = True
    return COUNTERS


class counting:
    """Context manager: count the steps of the enclosed optimize() call(s)."""

    def __init__(self, expr=None, gc_each_step=False):
        self.expr = expr
        self.gc_each_step = gc_each_step

    def __enter__(self):
        c = install()
        n = 0
        if self.expr is not None:
            try:
                n = sum(1 for _ in self.expr.walk())
            except Exception:
                n = 0
        c.reset(n)
        c.gc_each_step = self.gc_each_step
        c.active = True
        return c

    def __exit__(self, *a):
        COUNTERS.active = False
        if COUNTERS.bound():
            COUNTERS.max_ratio = max(COUNTERS.max_ratio, COUNTERS.steps / COUNTERS.bound())
        return False

"""Greedy delta-debugging over session specs.

Every candidate is executed in a fresh pristine fork; it is accepted only if the
same (oracle, signature) violation recurs."""
from __future__ import annotations

import copy
import time

from sim import workload as W


def recipe_candidates(recipe):
    ops = recipe["ops"]
    targets = recipe["targets"]
    # 1. single targets
    if len(targets) > 1:
        for t in targets:
            yield W.prune(recipe, [t])
    # 2. retarget to an earlier member (drop the tail)
    by_id = {op["id"]: op for op in ops}
    for t in targets:
        for s in W.op_srcs(by_id[t]):
            r = copy.deepcopy(recipe)
            r["targets"] = sorted(set([x for x in targets if x != t] + [s]))
            yield W.prune(r)
    # 3. bypass single-source ops
    for op in ops:
        srcs = W.op_srcs(op)
        if len(srcs) == 1 and op["id"] not in targets:
            r = copy.deepcopy(recipe)
            new_ops = []
            for o in r["ops"]:
                if o["id"] == op["id"]:
                    continue
                s = o.get("src")
                if isinstance(s, list):
                    o["src"] = [srcs[0] if x == op["id"] else x for x in s]
                elif s == op["id"]:
                    o["src"] = srcs[0]
                new_ops.append(o)
            r["ops"] = new_ops
            if any(isinstance(o.get("src"), list) and len(set(o["src"])) < len(o["src"]) and o["op"] == "merge" for o in new_ops):
                continue  # would create a self-merge, a region the generator excludes
            yield W.prune(r)
    # 4. drop knobs
    for op in ops:
        kn = op.get("knobs") or {}
        if kn:
            r = copy.deepcopy(recipe)
            for o in r["ops"]:
                if o["id"] == op["id"]:
                    o["knobs"] = {}
            yield r
            if len(kn) > 1:
                for k in sorted(kn):
                    r = copy.deepcopy(recipe)
                    for o in r["ops"]:
                        if o["id"] == op["id"]:
                            o["knobs"] = {kk: v for kk, v in kn.items() if kk != k}
                    yield r
    # 5. smaller tables
    for name, spec in sorted(recipe["tables"].items()):
        if spec["rows"] > 4:
            r = copy.deepcopy(recipe)
            r["tables"][name]["rows"] = max(4, spec["rows"] // 2)
            yield r
        for c in sorted(spec["cols"]):
            if len(spec["cols"]) > 1:
                r = copy.deepcopy(recipe)
                del r["tables"][name]["cols"][c]
                yield r
        if spec.get("index", "range") != "range":
            r = copy.deepcopy(recipe)
            r["tables"][name]["index"] = "range"
            yield r
    # 6. fewer partitions at the sources
    for op in ops:
        for key in ("npartitions", "nblocks"):
            if isinstance(op.get(key), int) and op[key] > 1 and op["op"] in ("from_pandas", "from_map", "from_delayed"):
                for newv in (1, op[key] // 2):
                    if newv >= 1 and newv != op[key]:
                        r = copy.deepcopy(recipe)
                        for o in r["ops"]:
                            if o["id"] == op["id"]:
                                o[key] = newv
                        yield r


def same_violation(a, b):
    return (
        b.get("verdict") == "violation"
        and a.get("oracle") == b.get("oracle")
        and a.get("signature") == b.get("signature")
    )


def minimize(spec, result, candidates_fn, run_exec, budget_s=90.0, max_execs=400):
    """Returns (spec, result, stats)."""
    t0 = time.time()
    execs = 0
    accepted = 0
    improved = True
    while improved and time.time() - t0 < budget_s and execs < max_execs:
        improved = False
        for cand in candidates_fn(spec):
            if time.time() - t0 > budget_s or execs >= max_execs:
                break
            try:
                res = run_exec(cand)
            except Exception:
                execs += 1
                continue
            execs += 1
            if same_violation(result, res):
                spec, result = cand, res
                accepted += 1
                improved = True
                break
    return spec, result, {"execs": execs, "accepted": accepted, "wall_s": round(time.time() - t0, 1)}

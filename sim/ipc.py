"""Length-prefixed JSON over Unix sockets + client helper for template servers."""
from __future__ import annotations

import json
import os
import socket
import struct


def send_msg(conn, obj):
    data = json.dumps(obj, default=repr).encode()
    conn.sendall(struct.pack(">I", len(data)) + data)


def recv_msg(conn):
    hdr = _recvn(conn, 4)
    if hdr is None:
        return None
    (n,) = struct.unpack(">I", hdr)
    data = _recvn(conn, n)
    if data is None:
        return None
    return json.loads(data.decode())


def _recvn(conn, n):
    buf = bytearray()
    while len(buf) < n:
        chunk = conn.recv(min(1 << 20, n - len(buf)))
        if not chunk:
            return None
        buf.extend(chunk)
    return bytes(buf)


def sock_path(sockdir, hash_seed):
    return os.path.join(sockdir, "t%d.sock" % hash_seed)


class PristineError(Exception):
    pass


def call(hash_seed, request, timeout=120.0, sockdir=None, want_pid=None):
    """Run ``request`` in a fresh fork of the pristine template for ``hash_seed``.

    Returns the response dict.  Raises PristineError on transport failure or
    timeout (a harness-level event, never a property verdict by itself)."""
    sockdir = sockdir or os.environ["VERIF_SOCKDIR"]
    s = socket.socket(socket.AF_UNIX, socket.SOCK_STREAM)
    s.settimeout(timeout)
    pid = None
    try:
        s.connect(sock_path(sockdir, hash_seed))
        req = dict(request)
        req.setdefault("cap_s", timeout)
        req.setdefault("cpu_cap_s", int(os.environ.get("VERIF_CPU_CAP_S", "90")))
        send_msg(s, req)
        first = recv_msg(s)
        if first is None:
            raise PristineError("template closed connection")
        pid = first.get("pid")
        if want_pid is not None:
            want_pid.append(pid)
        resp = recv_msg(s)
        if resp is None:
            raise PristineError("child died without a response (pid %s)" % pid)
        return resp
    except socket.timeout:
        if pid:
            try:
                os.kill(pid, 9)
            except OSError:
                pass
        raise PristineError("timeout after %ss (pid %s)" % (timeout, pid))
    finally:
        s.close()

"""Cache-capacity seam ("buggify" of tuning constants): attribute replacement only."""
from __future__ import annotations


def set_capacities(cap):
    """cap: int or None (shipped 10)."""
    if cap is None:
        return
    import dask_expr._repartition as rp
    import dask_expr._shuffle as sh
    import dask_expr._util as ut
    import dask_expr.io.parquet as pq

    sh.divisions_lru.maxsize = cap
    rp.mem_usages_lru.maxsize = cap
    pq._CACHED_PLAN_SIZE = cap
    if not getattr(ut.LRU, "_verif_wrapped", False):
        orig = ut.LRU.__init__

        def __init__(self, maxsize):
            orig(self, ut.LRU._verif_cap if ut.LRU._verif_cap is not None else maxsize)

        ut.LRU.__init__ = __init__
        ut.LRU._verif_wrapped = True
    ut.LRU._verif_cap = cap


def cache_sizes():
    import dask_expr._repartition as rp
    import dask_expr._shuffle as sh
    import dask_expr.io.parquet as pq
    from dask_expr._core import Expr

    return {"divisions_lru": len(sh.divisions_lru), "mem_usages_lru": len(rp.mem_usages_lru), "cached_plan": len(pq._cached_plan),
            "stats_cache": len(pq._STATS_CACHE), "instances": len(Expr._instances)}

"""Seed derivation.  One integer (VERIF_SEED) decides everything.

run_seed = H(VERIF_SEED, property, tier, i); every aspect of a session draws from
its own named sub-stream so that shrinking one aspect does not shift the others.
Nothing in here reads a clock or the process hash seed.
"""
from __future__ import annotations

import hashlib
import random

HASH_SEEDS = (0, 1, 2, 3)  # PYTHONHASHSEED values of the template servers


def H(*parts) -> int:
    h = hashlib.sha256()
    for p in parts:
        h.update(repr(p).encode())
        h.update(b"\x00")
    return int.from_bytes(h.digest()[:8], "big")


def stream(run_seed: int, name: str) -> random.Random:
    return random.Random(H(run_seed, name))


def hash_seed_for(run_seed: int) -> int:
    return HASH_SEEDS[H(run_seed, "hash") % len(HASH_SEEDS)]


def other_hash_seeds(hs: int):
    return [h for h in HASH_SEEDS if h != hs]


def digest(obj) -> str:
    """Stable short digest of a JSON-like object (sorted keys)."""
    import json

    return hashlib.sha256(
        json.dumps(obj, sort_keys=True, default=repr).encode()
    ).hexdigest()[:16]

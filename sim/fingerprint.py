"""Semantic fingerprints of task arguments and canonical observations of results.

fingerprint(obj): a value-based digest used by the C05 monitor ("no task modifies
an object it received"): type, labels, dtypes, names and every value incl. index.
observe(obj): a canonical, JSON-able description of a computed result used to
compare two executions of the same query (row multiset by default).
"""
from __future__ import annotations

import hashlib
import math
import pickle

import numpy as np
import pandas as pd

OPAQUE = "<opaque>"


def _h():
    return hashlib.blake2b(digest_size=12)


def _arr_bytes(arr) -> bytes:
    """Bytes that determine the values of a pandas column / index array."""
    if isinstance(arr, np.ndarray):
        if arr.dtype != object:
            return arr.tobytes()
        return repr(arr.tolist()).encode()
    if isinstance(arr, pd.Categorical):
        return np.asarray(arr.codes).tobytes() + repr(arr.categories.tolist()).encode() + (b"o" if arr.ordered else b"u")
    asi8 = getattr(arr, "asi8", None)
    if asi8 is not None:
        return np.asarray(asi8).tobytes()
    try:
        return repr(arr.tolist()).encode()
    except Exception:
        return pickle.dumps(arr, protocol=4)


def _index_bytes(idx) -> bytes:
    if isinstance(idx, pd.RangeIndex):
        return repr((idx.start, idx.stop, idx.step)).encode()
    if isinstance(idx, pd.MultiIndex):
        return b"|".join(_arr_bytes(idx.get_level_values(i)._values) for i in range(idx.nlevels))
    return _arr_bytes(idx._values)


def _hash_pandas(obj) -> bytes:
    try:
        if isinstance(obj, pd.DataFrame):
            parts = [_index_bytes(obj.index)]
            try:
                arrays = list(obj._iter_column_arrays())
            except Exception:
                arrays = [obj.iloc[:, i]._values for i in range(obj.shape[1])]
            for a in arrays:
                parts.append(_arr_bytes(a))
            return b"\x1e".join(parts)
        if isinstance(obj, pd.Series):
            return _index_bytes(obj.index) + b"\x1e" + _arr_bytes(obj._values)
        if isinstance(obj, pd.Index):
            return _index_bytes(obj)
    except Exception:
        pass
    try:
        return pd.util.hash_pandas_object(obj, index=True).values.tobytes()
    except Exception:
        try:
            return pickle.dumps(obj, protocol=4)
        except Exception:
            return repr(obj).encode()


def is_partd_handle(obj) -> bool:
    mod = type(obj).__module__ or ""
    return mod.startswith("partd")


def fingerprint(obj, _depth=0) -> str:
    """Value-based fingerprint.  Side-effect resources (partd stores) are opaque."""
    h = _h()
    if _depth > 6:
        return OPAQUE
    if isinstance(obj, pd.DataFrame):
        h.update(b"DF")
        h.update(repr(list(obj.columns)).encode())
        h.update(repr(tuple(obj.columns.names)).encode())
        h.update(repr([str(d) for d in obj.dtypes]).encode())
        h.update(repr(tuple(obj.index.names)).encode())
        h.update(str(obj.index.dtype).encode())
        h.update(_hash_pandas(obj))
    elif isinstance(obj, pd.Series):
        h.update(b"S")
        h.update(repr(obj.name).encode())
        h.update(str(obj.dtype).encode())
        h.update(repr(tuple(obj.index.names)).encode())
        h.update(str(obj.index.dtype).encode())
        h.update(_hash_pandas(obj))
    elif isinstance(obj, pd.Index):
        h.update(b"I")
        h.update(repr(tuple(obj.names)).encode())
        h.update(str(obj.dtype).encode())
        h.update(_hash_pandas(obj))
    elif isinstance(obj, np.ndarray):
        h.update(b"A")
        h.update(str(obj.dtype).encode())
        h.update(repr(obj.shape).encode())
        if obj.dtype == object:
            h.update(repr(obj.tolist()).encode())
        else:
            h.update(np.ascontiguousarray(obj).tobytes())
    elif isinstance(obj, (list, tuple)):
        h.update(b"L" if isinstance(obj, list) else b"T")
        for x in obj:
            h.update(fingerprint(x, _depth + 1).encode())
    elif isinstance(obj, dict):
        h.update(b"D")
        try:
            items = sorted(obj.items(), key=lambda kv: repr(kv[0]))
        except Exception:
            items = list(obj.items())
        for k, v in items:
            # Fused._execute_task writes its positional placeholders ("_0", ...)
            # into its own literal sub-graph: planner-private scratch, not data.
            if isinstance(k, str) and k[:1] == "_" and k[1:].isdigit():
                continue
            h.update(repr(k).encode())
            h.update(fingerprint(v, _depth + 1).encode())
    elif is_partd_handle(obj):
        return OPAQUE
    elif isinstance(obj, (int, float, str, bytes, bool, type(None), complex)):
        h.update(repr(obj).encode())
    elif isinstance(obj, (np.generic,)):
        h.update(repr(obj.item() if hasattr(obj, "item") else obj).encode())
    elif isinstance(obj, (pd.Timestamp, pd.Timedelta, pd.Interval)):
        h.update(repr(obj).encode())
    elif callable(obj):
        return OPAQUE
    else:
        try:
            h.update(pickle.dumps(obj, protocol=4))
        except Exception:
            return OPAQUE
    return h.hexdigest()


# --------------------------------------------------------------------------
# canonical observations


def _canon_scalar(x):
    if x is None or x is pd.NaT or x is pd.NA:
        return "∅"
    if isinstance(x, (bool, np.bool_)):
        return "b:%s" % bool(x)
    if isinstance(x, (int, np.integer)):
        return "n:%s" % _fmt_float(float(int(x))) if abs(int(x)) < 2**52 else "i:%d" % int(x)
    if isinstance(x, (float, np.floating)):
        x = float(x)
        if math.isnan(x):
            return "∅"
        return "n:%s" % _fmt_float(x)
    if isinstance(x, (pd.Timestamp, np.datetime64)):
        try:
            return "t:%s" % pd.Timestamp(x).isoformat()
        except Exception:
            return "∅"
    if isinstance(x, (pd.Timedelta, np.timedelta64)):
        return "d:%s" % pd.Timedelta(x).value
    if isinstance(x, str):
        return "s:" + x
    if isinstance(x, (list, tuple, np.ndarray)):
        return "l:[" + ",".join(_canon_scalar(v) for v in list(x)) + "]"
    try:
        if pd.isna(x):
            return "∅"
    except Exception:
        pass
    return "o:" + repr(x)


def _fmt_float(x: float) -> str:
    if abs(x) < 1e-9:
        # cancellation noise of order-dependent float sums (row order inside
        # disk-shuffled partitions is legitimately schedule dependent)
        return "0"
    if math.isinf(x):
        return "inf" if x > 0 else "-inf"
    return "%.9g" % x


def _kind(dtype) -> str:
    """Coarse dtype kind: ints/bools/floats are merged into 'num' because pandas
    promotes integer/boolean columns that acquire missing values, and which
    partition holds the nulls is layout dependent."""
    try:
        if isinstance(dtype, pd.CategoricalDtype):
            return "cat"
        if pd.api.types.is_bool_dtype(dtype):
            return "num"
        if pd.api.types.is_numeric_dtype(dtype):
            return "num"
        if pd.api.types.is_datetime64_any_dtype(dtype):
            return "dt"
        if pd.api.types.is_timedelta64_dtype(dtype):
            return "td"
        if pd.api.types.is_string_dtype(dtype):
            return "str"
    except Exception:
        pass
    return "obj"


def observe(obj, *, labels=True, order=False, kinds=True):
    """Canonical observation.

    labels: include index labels in each row (False where dask-expr leaves
            them unspecified).
    order:  keep row order (True only where the query defines it).
    """
    out = {}
    if isinstance(obj, pd.DataFrame):
        out["type"] = "frame"
        out["columns"] = [repr(c) for c in obj.columns]
        out["index_names"] = [repr(n) for n in obj.index.names] if labels else None
        cols = [obj.iloc[:, i] for i in range(obj.shape[1])]
        idx = obj.index
    elif isinstance(obj, pd.Series):
        out["type"] = "series"
        out["columns"] = [repr(obj.name)]
        out["index_names"] = [repr(n) for n in obj.index.names] if labels else None
        cols = [obj]
        idx = obj.index
    elif isinstance(obj, pd.Index):
        out["type"] = "index"
        out["columns"] = [repr(n) for n in obj.names]
        out["index_names"] = None
        cols = [obj.to_series(index=pd.RangeIndex(len(obj)))] if obj.nlevels == 1 else [
            obj.get_level_values(i).to_series(index=pd.RangeIndex(len(obj)))
            for i in range(obj.nlevels)
        ]
        idx = None
        labels = False
    elif isinstance(obj, np.ndarray):
        out["type"] = "array"
        out["columns"] = []
        out["index_names"] = None
        arr = obj.reshape(len(obj), -1) if obj.ndim else obj.reshape(1, 1)
        cols = [pd.Series(list(arr[:, j])) for j in range(arr.shape[1])]
        idx = None
        labels = False
    else:
        out["type"] = "scalar"
        out["columns"] = []
        out["index_names"] = None
        out["kinds"] = None
        out["nrows"] = 1
        out["rows"] = [[_canon_scalar(obj)]]
        return out
    n = len(cols[0]) if cols else (len(idx) if idx is not None else 0)
    if kinds:
        out["kinds"] = [_kind(c.dtype) for c in cols] if n else None
    else:
        out["kinds"] = None
    col_vals = [[_canon_scalar(v) for v in c.tolist()] for c in cols]
    if labels and idx is not None:
        if idx.nlevels == 1:
            col_vals.insert(0, [_canon_scalar(v) for v in idx.tolist()])
        else:
            for lv in reversed(range(idx.nlevels)):
                col_vals.insert(
                    0, [_canon_scalar(v) for v in idx.get_level_values(lv).tolist()]
                )
    rows = [list(r) for r in zip(*col_vals)] if col_vals else [[] for _ in range(n)]
    if not order:
        rows.sort()
    out["nrows"] = n
    out["rows"] = rows
    return out


def obs_digest(o) -> str:
    import json

    return hashlib.sha256(json.dumps(o, sort_keys=True).encode()).hexdigest()[:16]


def obs_equal(a, b):
    """Compare two observations; returns (equal, reason)."""
    if a["type"] != b["type"]:
        return False, "container type %s vs %s" % (a["type"], b["type"])
    if a["columns"] != b["columns"]:
        return False, "labels %s vs %s" % (a["columns"], b["columns"])
    if a.get("index_names") != b.get("index_names"):
        return False, "index names %s vs %s" % (a.get("index_names"), b.get("index_names"))
    if a["nrows"] != b["nrows"]:
        return False, "row count %d vs %d" % (a["nrows"], b["nrows"])
    if a["rows"] != b["rows"]:
        for i, (x, y) in enumerate(zip(a["rows"], b["rows"])):
            if x != y:
                return False, "row %d: %s vs %s" % (i, x, y)
        return False, "rows differ"
    if a.get("sorted_ok") is not None and b.get("sorted_ok") is not None and a["sorted_ok"] != b["sorted_ok"]:
        return False, "sortedness %s vs %s" % (a["sorted_ok"], b["sorted_ok"])
    if a.get("kinds") is not None and b.get("kinds") is not None and a["kinds"] != b["kinds"]:
        return False, "dtype kinds %s vs %s" % (a["kinds"], b["kinds"])
    return True, ""

#!/venv/bin/python
"""Regenerates MANIFEST.json from the table below (kept in one place so it stays valid)."""
import json, os
HERE = os.path.dirname(os.path.abspath(__file__))
BUILT = json.load(open(os.path.join(HERE, "built.json")))
NA = {
 "C01": "pure differential test between two compilations of one program (optimized vs lowered-only); nothing a simulator controls (schedule, fault, history, clock) is the deciding step; hidden-state facets are decided under C05/C15/C19",
 "C02": "pure function of (program, table, partition cuts) with a pandas-semantics oracle and an all-2^(n-1)-cuts quantifier: input-space enumeration / PBT, no schedule, fault, crash or history dimension",
 "C03": "exhaustive predicate trees x valuations x join tables is bounded enumeration of an input space; no schedule, fault or history dimension (reader-side filters are exercised under C18)",
 "C04": "column subsets x DAG shapes x widened inputs is a pure input space; GC timing can change the plan (C19) but only by pruning less, never the result",
 "C06": "relation between declared structure and computed partitions of one plan; its history-dependent facet (cached divisions/lengths going stale) is decided under C15",
 "C07": "relation between declared schema and computed data of one plan; meta derivation has no schedule/fault dependence, its only history dependence (cached _meta on a lingering singleton) is the C15 mechanism",
 "C11": "partitions/head/tail commuting with computation is a pure program equivalence; the to_delayed boundary it mentions is exercised under C17",
 "C13": "pure function of (old divisions, new divisions/counts, data) with an exhaustive-grid quantifier; repartition has no I/O or schedule dependence, its one cache (mem_usages_lru) is examined under C15",
 "C14": "per-partition identity of fused vs unfused plans is a pure plan equivalence; whole-result invariance under fuse is part of C10 and fused graphs are part of the C05 workload",
}
CHECKS = {
 "C05": dict(technique="deterministic simulation: seeded schedule search over a simulated cluster + per-task argument fingerprint monitor",
   text="Seeded exploration: every target query is executed under independently drawn schedules (policy, 1..16 workers, durations, stalls, by-reference vs pickled transfer, GC points) of a simulated cluster behind dask's scheduler= seam; all executions must give equal observations, every task argument must be bit-identical after the call, repeated computes and re-execution of one graph dict must agree, user frames stay intact. A clean batch is evidence, not proof.",
   note="Task bodies are atomic (no pre-emption inside a task); reference = dask-expr itself under 1-worker FIFO; program space sampled by the recipe generator.", ref="DESIGN.md §5 C05"),
}
CHECKS.update({
 "C09": dict(technique="deterministic simulation: simulated-scheduler admission checks + remote-style (pickled) execution on a seeded multi-worker cluster",
   text="Seeded exploration: for every generated query, every optimizer stage, fuse on/off, both shuffle methods, partition-filtered sources and graphs imported via persist / from_delayed / legacy round trips, the lowered plan's graph must pass the simulated scheduler's admission (one task per reported output key, closure incl. fused sub-graphs, acyclicity, no key defined differently by two expressions, pickling with planner objects forbidden) and then run to completion on a multi-worker simulated cluster that ships every task and cross-worker value as bytes.",
   note="The schedule does not change the static verdicts; the simulator contributes the remote-execution boundary, deadlock detection and the breadth of (stage x import x filter) states. Program space sampled.", ref="DESIGN.md §5 C09"),
 "C12": dict(technique="deterministic simulation: seeded schedules + partd write/read fault injection with conservation / exactly-once / co-location invariants",
   text="Seeded exploration of shuffle configurations (n_in, n_out, max_branch around the staging thresholds, tasks and disk, key dtypes with nulls, index shuffles, ignore_index, output subsets, int-vs-float twin frames) under drawn schedules of the simulated cluster; the disk method additionally with a tiny partd buffer and injected ENOSPC / torn append / EIO faults. Invariants: every input row exactly once, equal keys in one partition, same partition number in the twin frame, a requested subset equals the full run's partitions, a failed store raises and the next fault-free compute is correct.",
   note="(n_in, n_out, max_branch) grid is sampled, not enumerated; partd faults at File.append/_get granularity.", ref="DESIGN.md §5 C12"),
})
CHECKS.update({
 "C10": dict(technique="deterministic simulation: per-run randomised knob vectors (swarm) against a default-knob reference run on the simulated scheduler",
   text="Seeded exploration: each generated query is recomputed under drawn knob vectors (split_every, split_out, shuffle_method keyword and config, max_branch, broadcast, npartitions hints, upsample, fuse, occasionally a drawn multi-worker schedule) with partition counts on both sides of the planner's selection thresholds; every run must equal the default-knob reference observation (row multiset). Probes record which algorithm (tree vs shuffle reduce, broadcast vs hash join, staged shuffle, presorted path) was actually selected.",
   note="Configuration sampling in the swarm sense; reference is dask-expr itself at default knobs; three known findings are excluded from generation and re-checked by their own probes (known_findings.json).", ref="DESIGN.md §5 C10"),
})
CHECKS.update({
 "C08": dict(technique="deterministic simulation: cross-process / cross-hash-seed / cross-history transcript equality in pristine forks + single-change sibling probing",
   text="Seeded exploration: for every generated query the full plan transcript (names of all nodes in walk order, output keys, sorted graph keys at all six optimizer stages) must be identical for a second build, a rebuild after drop+GC, another construction order, a pristine process, pristine processes under two other PYTHONHASHSEEDs and after unrelated history; single-change siblings (one parameter, int vs float literal, one input cell, index only, column order, source layout) built after their original must neither share its name while being a different query nor return anything but their own pristine answer.",
   note="Program space sampled; siblings cover single-parameter variations of the recipe grammar; disk-shuffle helper keys compared by prefix (known finding); same machine / same library versions in all processes.", ref="DESIGN.md §5 C08"),
 "C15": dict(technique="deterministic simulation: seeded history machine with cache-capacity buggify, GC control and injected task failures, checked against pristine-process runs",
   text="Seeded exploration of session histories (observe / optimize kept or discarded / drop / gc / compute / compute with an injected task error in the main graph or a nested planner compute) over a pool of related queries larger than the (shrunk) cache capacities; every observation - result via compute(), partition-wise result, optimized plan name, divisions, npartitions, len - must equal the same query alone in a pristine process, and a compute whose fault fired must raise.",
   note="Pristine process = fresh fork of a template that imported dask_expr and built nothing; parquet dataset rewrites are exercised under C18.", ref="DESIGN.md §5 C15"),
 "C16": dict(technique="deterministic simulation: process restart with only the pickle surviving, receiver is a pristine fork",
   text="Seeded exploration: each generated query is pickled as built / optimized / optimized(fuse=False) / lowered after a drawn originating history (extra queries, shrunk caches, GC) and loaded in a pristine process; name, meta, divisions, npartitions and computed result there must equal those in the originating process, and nothing may fail there that works here.",
   note="Receiver has the same PYTHONHASHSEED (cross-seed naming is C08); no files involved.", ref="DESIGN.md §5 C16"),
 "C17": dict(technique="deterministic simulation: checkpoint/restore equivalence at every cut point with the materialising run on the simulated cluster and fingerprint-monitored downstream computes",
   text="Seeded exploration: at every intermediate member of a generated recipe the query is cut with persist() (drawn schedule, fuse), a delayed round trip or a legacy round trip and the tail rebuilt on the re-imported collection; final result, schema (dtype kinds) and divisions must equal the uncut run, the cut run may not fail where the uncut one works, and the re-imported partitions must stay bit-identical across several downstream computes.",
   note="Scalars are not cut points; three known findings are excluded from generation and re-checked by probes.", ref="DESIGN.md §5 C17"),
 "C18": dict(technique="deterministic simulation: simulated object store (SimFS) with file clock, permuted listings and write/read fault injection under both parquet readers",
   text="Seeded exploration on an in-memory store owned by the simulator: datasets written by to_parquet under drawn writer schedules or directly with unsorted / overlapping per-file ranges are read through the fsspec and arrow-filesystem readers; the full read must equal what was written, reported divisions must be truthful, every pushed-down observation (projection, predicate, partition subset, len) must equal the same operations on an in-memory copy of the full read, overwrite from a query reading the target must be refused with every byte left in place, a re-read after a rewrite must show the new contents, a failing file write must surface and a read error must never become fewer rows.",
   note="pyarrow reader threads and the statistics thread pool stay real; three known findings (null-dropping '!=', unnamed-index label, _metadata + arrow reader) are excluded and probed.", ref="DESIGN.md §5 C18"),
 "C19": dict(technique="deterministic simulation: bounded-liveness step monitor on the rewrite drivers + plan transcript equality under GC schedules, history and hash seeds in pristine forks",
   text="Seeded exploration: optimize() of every generated query is step-counted (simplify_once / rewrite / lower_once / fusion substitutions) against a bound of 200 x (nodes + 1) and 'does not converge' is a violation; the plan transcript must be identical when repeated, after unrelated history + GC, with GC forced between all rewrite steps and in pristine processes under other hash seeds; optimize(optimize(q)) and optimize(fuse=False) then optimize(fuse=True) must compute the same observation as optimize(q).",
   note="Program space sampled; CPU-time budget is the backstop for hangs outside the counted drivers.", ref="DESIGN.md §5 C19"),
})
PENDING = {}
def main():
    checks = []
    for pid in sorted(CHECKS):
        if pid not in BUILT["built"]:
            continue
        c = CHECKS[pid]
        checks.append({
            "property_id": pid,
            "quick_cmd": "./check %s --tier quick" % pid,
            "thorough_cmd": "./check %s --tier thorough" % pid,
            "evidence_file": "/verif/evidence/%s.json" % pid,
            "replay_cmd_template": "./check %s --replay {path}" % pid,
            "engine": "sim",
            "level_claimed": {"category": "exploration", "text": c["text"], "design_ref": c["ref"]},
            "level_note": c["note"],
            "technique": c["technique"],
        })
    na = [{"property_id": k, "reason": v} for k, v in sorted(NA.items())]
    for pid in ("C05","C08","C09","C10","C12","C15","C16","C17","C18","C19"):
        if pid not in BUILT["built"]:
            na.append({"property_id": pid, "reason": "claimed in DESIGN.md §5 but its simulation profile is not built yet in this commit (under construction; not a statement about applicability)"})
    m = {
     "version": 1,
     "setup_cmd": "/venv/bin/python -c \"import sys; sys.path.insert(0,'/repo'); import dask_expr, pandas, pyarrow, partd, fsspec, cloudpickle, dask; print('ok', dask_expr.__file__)\"",
     "hooks": {
       "guard": "DASK_EXPR_VERIF",
       "enable": "none needed: every seam is installed from /verif/sim by attribute replacement or through public extension points (scheduler= callable, dask.config, fsspec filesystems); no guarded code was added to /repo",
       "baseline_off_cmd": "cd /repo && env -u DASK_EXPR_VERIF /venv/bin/python -m pytest -ra -q -p no:cacheprovider --timeout=900 --continue-on-collection-errors --junitxml=/tmp/verif-baseline.junit.xml",
       "source_commits": BUILT.get("hook_commits", []),
       "add_only": True,
     },
     "engines": [{"name": "sim", "path": "/verif/sim", "serves_properties": [c["property_id"] for c in checks],
                  "kind_free_text": "deterministic simulation with fault injection: seeded simulated cluster/scheduler, pristine-fork process model, simulated storage and fault points, recorded replayable specs"}],
     "checks": checks,
     "not_applicable": sorted(na, key=lambda d: d["property_id"]),
     "notes": BUILT.get("notes", ""),
    }
    json.dump(m, open(os.path.join(HERE, "MANIFEST.json"), "w"), indent=1)
    print("wrote MANIFEST.json with", len(checks), "checks")
if __name__ == "__main__":
    main()

"""Debug helper: run generate+execute of one session in this process (not pristine)."""
import os, sys, time, json, gc, warnings
HERE = os.path.dirname(os.path.dirname(os.path.abspath(__file__)))
sys.path.insert(0, HERE); sys.path.insert(0, os.environ.get("VERIF_REPO", "/repo"))
warnings.simplefilter("ignore")
from sim import rng as R, handlers
prop, tier, seed, i = sys.argv[1], sys.argv[2], int(sys.argv[3]), int(sys.argv[4])
prof = handlers.profile(prop)
rs = R.H(seed, prop, tier, i)
gc.disable()
t=time.time(); spec = prof.generate(rs, tier); t1=time.time()-t
print("gen %.2fs"%t1)
if "--spec" in sys.argv: print(json.dumps(spec, indent=1, default=repr))
spec["hash_seed"]=0; spec["run_seed"]=rs
if "--profile" in sys.argv:
    import cProfile, pstats
    cProfile.run("res = prof.execute(spec)", "/tmp/prof.out")
    pstats.Stats("/tmp/prof.out").sort_stats("cumulative").print_stats(35)
else:
    t=time.time(); res = prof.execute(spec); print("exec %.2fs"%(time.time()-t))
    print({k:v for k,v in res.items() if k not in ("interleavings",)})

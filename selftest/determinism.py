"""Harness determinism self-test: every session is a pure function of
(VERIF_SEED, property, tier, index) and the code.  Runs N sessions of each built
profile twice (different worker-slot counts, different driver hash seed is
covered by running ./check under VERIF_KEEP_HASHSEED) and compares digests."""
from __future__ import annotations

import json
import sys

from sim import handlers, rng as R, runner


def main(a):
    props = [p for p in handlers.PROFILE_IDS if p in handlers._profiles]
    import os

    if os.environ.get("VERIF_PROPS"):
        props = os.environ["VERIF_PROPS"].split(",")
    n = a.sessions or 24
    bad = 0
    with runner.Templates() as tpl:
        for prop in props:
            r1, _, _ = runner.run_batch(prop, a.tier, a.seed, n, 16, 240, 3600, tpl)
            r2, _, _ = runner.run_batch(prop, a.tier, a.seed, n, 3, 240, 3600, tpl)
            mism = 0
            for x, y in zip(r1, r2):
                dx, dy = runner.session_digest(x), runner.session_digest(y)
                if dx != dy:
                    mism += 1
                    if mism <= 2:
                        print("MISMATCH %s index=%d seed=%x" % (prop, x["index"], x["run_seed"]))
                        sx, sy = runner.strip_volatile(x), runner.strip_volatile(y)
                        for k in sorted(set(sx) | set(sy)):
                            if sx.get(k) != sy.get(k):
                                print("   key %s:\n     %s\n     %s" % (k, json.dumps(sx.get(k), default=repr)[:600], json.dumps(sy.get(k), default=repr)[:600]))
            print("determinism %s: %d sessions x2, mismatches=%d" % (prop, len(r1), mism))
            bad += mism
    return 3 if bad else 0

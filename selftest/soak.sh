#!/bin/bash
# usage: selftest/soak.sh "<seeds>" "<props>"   -- quick tier, prints one summary line per run plus violations
cd "$(dirname "$0")/.."
for seed in $1; do for c in $2; do
  timeout 1200 ./check $c --seed $seed --no-evidence 2>&1 | grep -v "^  File\|^Thread\|^$\|^KNOWN" | cut -c1-500 | tail -7 | sed "s/^/[$c s$seed] /"
done; done

#!/bin/bash
# usage: selftest/soak.sh "<seeds>" "<props>" [tier] [budget_s]  -- prints one summary line per run plus violations
cd "$(dirname "$0")/.."
TIER=${3:-quick}
for seed in $1; do for c in $2; do
  if [ -n "$4" ]; then B="--budget-s $4"; else B=""; fi
  timeout 3000 ./check $c --tier $TIER --seed $seed --no-evidence $B 2>&1 | grep -v "^  File\|^Thread\|^$\|^KNOWN" | cut -c1-500 | tail -9 | sed "s/^/[$c $TIER s$seed] /"
done; done

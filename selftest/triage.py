"""Debug helper: rebuild a C10 replay in-process and print reference vs alt results."""
import os, sys, json, warnings
HERE = os.path.dirname(os.path.dirname(os.path.abspath(__file__)))
sys.path.insert(0, HERE); sys.path.insert(0, os.environ.get("VERIF_REPO", "/repo"))
warnings.simplefilter("ignore")
import dask, pandas as pd
from sim import workload as W
from sim.profiles import c10
pd.set_option("display.width", 200)
d = json.load(open(sys.argv[1])); spec = d["spec"]; recipe = spec["recipe"]
base = W.build(recipe, use_knobs=False)
for t in recipe["targets"]:
    print("--- reference target", t); print(base[t].compute(scheduler="sync"))
    for alt in spec["alts"]:
        r2 = c10.apply_knobs(recipe, alt["knobs"])
        with dask.config.set({"dataframe.shuffle.method": alt["config_method"]} if alt.get("config_method") else {}):
            pool = W.build(r2, use_knobs=True)
            print("--- alt", alt["knobs"], alt["fuse"], alt.get("config_method"))
            try:
                print(pool[t].compute(scheduler="sync", fuse=alt["fuse"]))
                if "--plan" in sys.argv: pool[t].optimize(fuse=alt["fuse"]).pprint()
            except Exception as e:
                import traceback; traceback.print_exc()

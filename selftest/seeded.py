#!/venv/bin/python
"""Seeded-change bookkeeping.
  seeded.py add <id> <property> <patch> <demo> "<needs>"     copy into /verif/seeded/<id>/
  seeded.py confirm <id>      demo PASS on clean / FAIL with patch; test-suite comparison with the baseline failures
  seeded.py detect <id> [--checks C09,C05] [--sessions N] [--seed S]   run checks with VERIF_REPO=<scratch worktree with patch>
All work happens in a scratch worktree under /tmp (removed afterwards); /repo itself is never modified."""
import json, os, shutil, subprocess, sys, time

HERE = os.path.dirname(os.path.dirname(os.path.abspath(__file__)))
SEEDED = os.path.join(HERE, "seeded")
PY = "/venv/bin/python"


def sh(cmd, **kw):
    return subprocess.run(cmd, shell=True, capture_output=True, text=True, **kw)


def worktree(path=None):
    wt = path or "/tmp/seedwt-%d" % os.getpid()
    if os.path.exists(wt):
        raise SystemExit("worktree path %s exists" % wt)
    sh("git -C /repo worktree add -q --detach %s HEAD" % wt)
    return wt


def drop(wt):
    sh("git -C /repo worktree remove --force %s" % wt)
    shutil.rmtree(wt, ignore_errors=True)


def run_demo(wt, demo):
    env = dict(os.environ, PYTHONPATH=wt)
    r = subprocess.run([PY, demo], cwd=wt, env=env, capture_output=True, text=True, timeout=600)
    return r.returncode, (r.stdout + r.stderr)[-600:]


def failing_ids(xml):
    import xml.etree.ElementTree as ET

    out = set()
    for tc in ET.parse(xml).iter("testcase"):
        if any(c.tag in ("failure", "error") for c in tc):
            out.add(tc.get("classname") + "::" + tc.get("name"))
    return out


def main():
    cmd = sys.argv[1]
    sid = sys.argv[2]
    d = os.path.join(SEEDED, sid)
    if cmd == "add":
        prop, patch, demo, needs = sys.argv[3:7]
        os.makedirs(d, exist_ok=True)
        shutil.copy(patch, os.path.join(d, "patch.diff"))
        shutil.copy(demo, os.path.join(d, "demo.py"))
        meta = {"id": sid, "property": prop, "needs": needs, "source": "independent sub-agent given only the property text and a scratch worktree",
                "confirmed": None, "detected_by": {}, "worktree_path": "/tmp/sa_%s" % prop}
        json.dump(meta, open(os.path.join(d, "meta.json"), "w"), indent=1)
        return 0
    meta = json.load(open(os.path.join(d, "meta.json")))
    wt = worktree(meta.get("worktree_path"))
    try:
        patch = os.path.join(d, "patch.diff")
        demo = os.path.join(d, "demo.py")
        if cmd == "confirm":
            rc0, out0 = run_demo(wt, demo)
            a = sh("git -C %s apply %s" % (wt, patch))
            if a.returncode:
                print("patch does not apply:", a.stderr)
                return 2
            rc1, out1 = run_demo(wt, demo)
            xml = "/tmp/seed-%s.xml" % sid
            t = time.time()
            subprocess.run("cd %s && PYTHONPATH=%s %s -m pytest -q -p no:cacheprovider --timeout=900 --continue-on-collection-errors -n 12 --junitxml=%s > /tmp/seed-%s.log 2>&1" % (wt, wt, PY, xml, sid), shell=True)
            fails = failing_ids(xml)
            base = set(open("/tmp/baseline_failures.txt").read().split("\n")) - {""} if os.path.exists("/tmp/baseline_failures.txt") else None
            stable = set(json.load(open("/root/.vp/BASELINE.json"))["stable_pass"])
            broken_stable = sorted(fails & stable)
            meta["confirmed"] = {"demo_clean_rc": rc0, "demo_patched_rc": rc1, "suite_new_failures_in_stable_pass": broken_stable,
                                 "suite_failing_total": len(fails), "suite_wall_s": round(time.time() - t),
                                 "ran": "demo on clean worktree and with patch; full pytest suite with patch (-n 12), failures compared with BASELINE.json stable_pass"}
            print(json.dumps(meta["confirmed"], indent=1))
            print("demo patched tail:", out1[-300:])
            ok = rc0 == 0 and rc1 != 0 and not broken_stable
            meta["confirmed"]["ok"] = ok
            json.dump(meta, open(os.path.join(d, "meta.json"), "w"), indent=1)
            return 0 if ok else 1
        if cmd == "detect":
            args = sys.argv[3:]
            checks = [meta["property"]]
            sessions = None
            seed = 0
            budget = None
            i = 0
            while i < len(args):
                if args[i] == "--checks":
                    checks = args[i + 1].split(","); i += 2
                elif args[i] == "--sessions":
                    sessions = args[i + 1]; i += 2
                elif args[i] == "--seed":
                    seed = int(args[i + 1]); i += 2
                elif args[i] == "--budget-s":
                    budget = args[i + 1]; i += 2
                else:
                    i += 1
            a = sh("git -C %s apply %s" % (wt, patch))
            if a.returncode:
                print("patch does not apply:", a.stderr)
                return 2
            for c in checks:
                env = dict(os.environ, VERIF_REPO=wt)
                cl = [os.path.join(HERE, "check"), c, "--tier", "quick", "--seed", str(seed), "--no-evidence"]
                if sessions:
                    cl += ["--sessions", sessions]
                if budget:
                    cl += ["--budget-s", budget]
                t = time.time()
                r = subprocess.run(cl, env=env, capture_output=True, text=True)
                lines = [l for l in r.stdout.split("\n") if l.startswith(("VIOLATION", "  oracle", "KNOWN", "HARNESS", c))]
                print("\n".join(lines[-8:]))
                meta.setdefault("detected_by", {})["%s@seed%d" % (c, seed)] = {"exit": r.returncode, "wall_s": round(time.time() - t),
                                                              "first": next((l.strip() for l in lines if l.startswith("  oracle")), None)}
            json.dump(meta, open(os.path.join(d, "meta.json"), "w"), indent=1)
            return 0
    finally:
        drop(wt)


if __name__ == "__main__":
    sys.exit(main())
